//! C05 — FM-index backward search returns exactly the pattern's occurrences (Complete), the
//! occurrences of the longest occurring pattern suffix (Partial) or Absent; for every Occ rate, for
//! borrowed / owned / Arc components, and with positions resolved through sampled suffix arrays.
//!
//! The index is assembled from the oracle's suffix array (either sentinel order), BWT and less by
//! definition, and the subject's Occ; the search and the position lookup are the subject's.

use super::Prop;
use crate::ctx::{guard, show, unshow, CaseCtx, Ctx, Tier};
use crate::oracles::text_index as ti;
use crate::oracles::text_index::Pi;
use bio::alphabets::Alphabet;
use bio::data_structures::bwt::{Less, Occ, BWT};
use bio::data_structures::fmindex::{BackwardSearchResult, FMDIndex, FMIndex, FMIndexable, Interval};
use bio::data_structures::suffix_array::{SampledSuffixArray, SuffixArray};
use serde_json::{json, Value};
use std::sync::Arc;

pub struct C05Prop;
pub static C05: C05Prop = C05Prop;

struct Index<'a> {
    text: &'a [u8],
    class: &'static str,
    sa: &'a Vec<usize>,
    fm_ref: FMIndex<&'a BWT, &'a Less, &'a Occ>,
    fm_owned: FMIndex<BWT, Less, Occ>,
    fm_arc: FMIndex<Arc<BWT>, Arc<Less>, Arc<Occ>>,
    sampled: Vec<(usize, SampledSuffixArray<&'a BWT, &'a Less, &'a Occ>)>,
    sampled_arc: SampledSuffixArray<Arc<BWT>, Arc<Less>, Arc<Occ>>,
}

fn sampling_rates(n: usize) -> Vec<usize> {
    // usize::MAX: "store only the mandatory rows"; size computations must not overflow on it
    let mut v = vec![1, 2, 3, n, usize::MAX - 1, usize::MAX];
    v.sort();
    v.dedup();
    v
}

/// What does not depend on k: oracle suffix array (under pi), BWT and less by definition.
struct Base {
    sa: Vec<usize>,
    bwt: BWT,
    less: Less,
    alphabet: Alphabet,
}

fn base_of(text: &[u8], emb: &[u8; 4], pi: Pi) -> Base {
    let sa = ti::naive_sa(text, pi);
    let bwt: BWT = ti::bwt_def(text, &sa);
    let alphabet = Alphabet::new(&emb[..]);
    let less: Less = ti::less_table(text, alphabet.max_symbol().unwrap());
    Base { sa, bwt, less, alphabet }
}

/// Build the index for (text, pi, k) over the alphabet {sentinel, a, b, c} of the embedding and
/// hand it to `f`.  Err = the subject panicked while building Occ / sampling.
fn with_index<R>(text: &[u8], base: &Base, k: u32, f: impl FnOnce(&Index) -> R) -> Result<R, String> {
    let (sa, bwt, less) = (&base.sa, &base.bwt, &base.less);
    let occ = guard(|| Occ::new(bwt, k, &base.alphabet))?;
    let n = text.len();
    let sampled = guard(|| {
        sampling_rates(n)
            .into_iter()
            .map(|s| (s, sa.sample(text, bwt, less, &occ, s)))
            .collect::<Vec<_>>()
    })?;
    let (abwt, aless, aocc) = (Arc::new(bwt.clone()), Arc::new(less.clone()), Arc::new(occ.clone()));
    let sampled_arc = guard(|| sa.sample(text, abwt.clone(), aless.clone(), aocc.clone(), 2))?;
    let idx = Index {
        text,
        class: if ti::sentinel_count(text) >= 2 { "multi-sentinel" } else { "single-sentinel" },
        sa,
        fm_ref: FMIndex::new(bwt, less, &occ),
        fm_owned: FMIndex::new(bwt.clone(), less.clone(), occ.clone()),
        fm_arc: FMIndex::new(abwt, aless, aocc),
        sampled,
        sampled_arc,
    };
    Ok(f(&idx))
}

fn kind_of(r: &BackwardSearchResult) -> &'static str {
    match r {
        BackwardSearchResult::Complete(_) => "Complete",
        BackwardSearchResult::Partial(_, _) => "Partial",
        BackwardSearchResult::Absent => "Absent",
    }
}

fn check_search(idx: &Index, p: &[u8], cc: &mut CaseCtx) {
    let text = idx.text;
    let class = idx.class;
    let (l, want_occ) = ti::longest_occurring_suffix_with_positions(text, p);
    if cc.replaying || p.len() <= 2 {
        // keep the two naive oracles honest against each other
        assert_eq!(want_occ, ti::occurrences(text, &p[p.len() - l..]), "oracle self-check");
    }
    cc.set_nontrivial((l > 0 && l < p.len()) || want_occ.len() >= 2);
    let want_kind = if l == p.len() {
        "Complete"
    } else if l == 0 {
        "Absent"
    } else {
        "Partial"
    };

    let r_ref = guard(|| idx.fm_ref.backward_search(p.iter()));
    let r_owned = guard(|| idx.fm_owned.backward_search(p.iter()));
    let r_arc = guard(|| idx.fm_arc.backward_search(p.iter()));
    let res = match &r_ref {
        Err(msg) => {
            cc.outcome(&"panic");
            cc.violation(
                format!("C05/backward_search/{}/panic", class),
                format!("text {:?} pattern {:?}: {}", show(text), show(p), msg),
            );
            return;
        }
        Ok(r) => *r,
    };
    cc.outcome(&res);
    // the pattern is "any double-ended iterator over &u8": iterators without an exact size hint
    // (filter, flat_map over segments) and a chain must give the very same answer
    let keep = |_: &&u8| true;
    let routes = [
        ("filter", guard(|| idx.fm_ref.backward_search(p.iter().filter(keep)))),
        ("flat_map", guard(|| idx.fm_ref.backward_search(p.chunks(2).flat_map(|c| c.iter())))),
        ("chain", guard(|| idx.fm_ref.backward_search(p[..p.len() / 2].iter().chain(p[p.len() / 2..].iter())))),
    ];
    for (route, r) in routes {
        if r.as_ref().ok() != Some(&res) {
            cc.violation(
                "C05/backward_search/iterator-argument/differs-from-slice-iterator",
                format!("text {:?} pattern {:?}: slice iterator {:?}, {} iterator {:?}", show(text), show(p), res, route, r),
            );
        }
    }
    if r_owned.as_ref().ok() != Some(&res) || r_arc.as_ref().ok() != Some(&res) {
        cc.violation(
            "C05/backward_search/ownership-dependent",
            format!("borrowed {:?}, owned {:?}, Arc {:?}", res, r_owned, r_arc),
        );
    }
    let (iv, got_len): (Option<Interval>, usize) = match res {
        BackwardSearchResult::Complete(iv) => (Some(iv), p.len()),
        BackwardSearchResult::Partial(iv, ll) => (Some(iv), ll),
        BackwardSearchResult::Absent => (None, 0),
    };
    if kind_of(&res) != want_kind {
        cc.violation(
            format!("C05/backward_search/{}/kind-differs", class),
            format!(
                "text {:?} pattern {:?}: got {:?}; longest occurring suffix has length {} so expected {}",
                show(text), show(p), res, l, want_kind
            ),
        );
        return;
    }
    if got_len != l {
        cc.violation(
            format!("C05/backward_search/{}/partial-length-differs", class),
            format!("text {:?} pattern {:?}: got {:?}, longest occurring suffix has length {}", show(text), show(p), res, l),
        );
        return;
    }
    let iv = match iv {
        Some(iv) => iv,
        None => return,
    };
    // positions through the full array
    let full = match guard(|| iv.occ(idx.sa)) {
        Err(msg) => {
            cc.violation(
                format!("C05/interval-occ/{}/panic", class),
                format!("text {:?} pattern {:?} result {:?}: {}", show(text), show(p), res, msg),
            );
            return;
        }
        Ok(mut v) => {
            v.sort();
            v
        }
    };
    if full != want_occ {
        cc.violation(
            format!("C05/backward_search/{}/occurrences-differ", class),
            format!(
                "text {:?} pattern {:?}: {:?} maps to {:?}; suffix {:?} occurs at {:?}",
                show(text), show(p), res, full, show(&p[p.len() - l..]), want_occ
            ),
        );
        return;
    }
    // positions through the sampled arrays
    let mut via: Vec<(usize, Result<Vec<usize>, String>)> =
        idx.sampled.iter().map(|(s, ssa)| (*s, guard(|| iv.occ(ssa)))).collect();
    via.push((2, guard(|| iv.occ(&idx.sampled_arc))));
    for (s, r) in via {
        match r {
            Err(msg) => {
                cc.violation(
                    format!("C05/interval-occ/{}/sampled-sa-panic", class),
                    format!("text {:?} pattern {:?} sampling rate {}: {}", show(text), show(p), s, msg),
                );
                return;
            }
            Ok(mut v) => {
                v.sort();
                if v != want_occ {
                    cc.violation(
                        format!("C05/interval-occ/{}/sampled-sa-positions-differ", class),
                        format!(
                            "text {:?} pattern {:?} sampling rate {}: {:?} maps to {:?}, expected {:?}",
                            show(text), show(p), s, iv, v, want_occ
                        ),
                    );
                    return;
                }
            }
        }
    }
}

fn emb_name(emb: &[u8; 4]) -> &'static str {
    if emb[0] == 0 {
        "extreme"
    } else {
        "ascii"
    }
}

fn search_desc(text: &[u8], emb: &[u8; 4], pi: Pi, k: u32, p: &[u8]) -> Value {
    json!({"kind": "search", "text": show(text), "alphabet": emb_name(emb), "pi": pi.name(), "k": k, "pattern": show(p)})
}

/// all patterns for one (text, pi, k)
fn search_cases(ctx: &mut Ctx, text: &[u8], emb: &[u8; 4], base: &Base, pi: Pi, k: u32, patterns: &[Vec<u8>]) {
    if ctx.res.capped {
        return;
    }
    // the context is needed inside (cases) and outside (construction failure) the closure
    let mut failed: Option<String> = None;
    let r = with_index(text, base, k, |idx| {
        for p in patterns {
            ctx.case(|| search_desc(text, emb, pi, k, p), |cc| check_search(idx, p, cc));
        }
    });
    if let Err(msg) = r {
        failed = Some(msg);
    }
    if let Some(msg) = failed {
        ctx.case(
            || json!({"kind": "build", "text": show(text), "alphabet": emb_name(emb), "pi": pi.name(), "k": k}),
            |cc| cc.violation("C05/index-construction/panic", msg.clone()),
        );
    }
}

fn occ_rates(n: usize) -> Vec<u32> {
    let mut v = vec![1u32, 2, 5, n as u32 + 3];
    v.sort();
    v.dedup();
    v
}

struct Bounds {
    /// {$,a,b} bodies
    text3: usize,
    /// patterns over {a,b,c}
    pat: usize,
    /// byte-extreme embedding
    text_x: usize,
    pat_x: usize,
}

fn bounds_of(tier: Tier) -> Bounds {
    match tier {
        Tier::Quick => Bounds { text3: 10, pat: 4, text_x: 7, pat_x: 3 },
        Tier::Thorough => Bounds { text3: 12, pat: 5, text_x: 9, pat_x: 4 },
    }
}

const SWEEP_SHARDS: usize = 32;
const FAMILY_SHARDS: usize = 16;

fn patterns(emb: &[u8; 4], maxlen: usize) -> Vec<Vec<u8>> {
    crate::gen::strings(&emb[1..4], 1, maxlen)
}

fn sweep_unit(tier: Tier, shard: usize, ctx: &mut Ctx) {
    let b = bounds_of(tier);
    for (emb, tmax, pmax) in [(&ti::ASCII, b.text3, b.pat), (&ti::EXTREME, b.text_x, b.pat_x)] {
        let pats = patterns(emb, pmax);
        ti::for_each_body(3, 0, tmax, shard, SWEEP_SHARDS, |_, body| {
            let text = ti::text_of_body(body, emb);
            let multi = body.contains(&0);
            let desc = base_of(&text, emb, Pi::Desc);
            let asc = if multi { Some(base_of(&text, emb, Pi::Asc)) } else { None };
            for k in occ_rates(text.len()) {
                search_cases(ctx, &text, emb, &desc, Pi::Desc, k, &pats);
                if let Some(asc) = &asc {
                    if k == 2 || k == 5 {
                        search_cases(ctx, &text, emb, asc, Pi::Asc, k, &pats);
                    }
                }
            }
        });
    }
}

/// patterns for a long text: all short ones, plus factors / one-flip factors / over-long patterns

// ---------------------------------------------------------------- real construction pipeline
//
// Everywhere else in this module the suffix array, BWT and `less` come from the oracle, to isolate
// backward search from C03/C04.  A user, however, indexes a text through the library's own
// pipeline; this family does the same for collections of MANY sentinel-separated sequences (the
// rank transform inside suffix_array switches its integer width when alphabet size + number of
// sentinels passes 255) and for a few ordinary texts.

fn pipeline_text(reads: usize) -> Vec<u8> {
    let pool: [&[u8]; 6] = [b"A", b"C", b"G", b"T", b"AC", b"GT"];
    let mut t = vec![];
    for i in 0..reads {
        t.extend_from_slice(pool[(i * 5 + i / 6) % pool.len()]);
        t.push(b'$');
    }
    t
}

fn check_pipeline(text: &[u8], k: u32, cc: &mut CaseCtx) {
    use bio::data_structures::bwt::{bwt, less};
    use bio::data_structures::suffix_array::suffix_array;
    cc.nontrivial();
    let alphabet = Alphabet::new(b"$ACGT");
    let built = guard(|| {
        let sa = suffix_array(text);
        let b = bwt(text, &sa);
        let l = less(&b, &alphabet);
        let o = Occ::new(&b, k, &alphabet);
        (sa, b, l, o)
    });
    let (sa, b, l, o) = match built {
        Ok(x) => x,
        Err(msg) => {
            cc.outcome(&"panic");
            cc.violation("C05/index-construction/panic", format!("{} sequences, k={}: {}", ti::sentinel_count(text), k, msg));
            return;
        }
    };
    let fm = FMIndex::new(&b, &l, &o);
    let mut obs = vec![];
    for p in [&b"A"[..], b"C", b"AC", b"CA", b"GT", b"TG", b"ACG", b"TT"] {
        let (len, want_occ) = ti::longest_occurring_suffix_with_positions(text, p);
        let want_kind = if len == p.len() { "Complete" } else if len == 0 { "Absent" } else { "Partial" };
        match guard(|| fm.backward_search(p.iter())) {
            Err(msg) => {
                cc.violation("C05/backward_search/pipeline/panic", format!("pattern {:?}: {}", show(p), msg));
                return;
            }
            Ok(r) => {
                let (kind, got) = match r {
                    BackwardSearchResult::Complete(iv) => ("Complete", Some((iv, p.len()))),
                    BackwardSearchResult::Partial(iv, m) => ("Partial", Some((iv, m))),
                    BackwardSearchResult::Absent => ("Absent", None),
                };
                obs.push((kind, want_occ.len()));
                if kind != want_kind || got.map(|g| g.1) != if len == 0 { None } else { Some(len) } {
                    cc.violation("C05/backward_search/pipeline/kind-differs", format!("{} sequences k={} pattern {:?}: got {} {:?}, expected {} (longest occurring suffix {})", ti::sentinel_count(text), k, show(p), kind, got.map(|g| g.1), want_kind, len));
                    return;
                }
                if let Some((iv, _)) = got {
                    match guard(|| { let mut v = iv.occ(&sa); v.sort(); v }) {
                        Err(msg) => { cc.violation("C05/interval-occ/pipeline/panic", msg); return; }
                        Ok(v) => if v != want_occ {
                            cc.violation("C05/backward_search/pipeline/occurrences-differ", format!("{} sequences k={} pattern {:?}: {} positions, expected {}", ti::sentinel_count(text), k, show(p), v.len(), want_occ.len()));
                            return;
                        }
                    }
                }
            }
        }
    }
    cc.outcome(&obs);
}

fn pipeline_unit(tier: Tier, ctx: &mut Ctx) {
    let mut counts: Vec<usize> = vec![1, 2, 3, 7, 100, 200];
    counts.extend(245..=262);
    if tier == Tier::Thorough {
        counts.extend([300, 511, 512, 513, 1000]);
    }
    for r in counts {
        let text = pipeline_text(r);
        for k in [1u32, 3, 65] {
            ctx.case(|| json!({"kind": "pipeline", "reads": r, "k": k}), |cc| check_pipeline(&text, k, cc));
        }
    }
}

// ---------------------------------------------------------------- FMIndexable through FMDIndex
//
// `FMDIndex` implements `FMIndexable` by delegation, so `backward_search` is available on it as
// well.  The texts here have the shape an FMD index is documented for (every sequence followed by
// its reverse complement, DNA alphabet); everything else is as in the sweep: oracle suffix array
// (both sentinel orders), BWT and less by definition, the subject's Occ.

fn dna_comp(c: u8) -> u8 {
    match c {
        b'A' => b'T',
        b'T' => b'A',
        b'C' => b'G',
        b'G' => b'C',
        x => x,
    }
}

fn fmd_text(seqs: &[Vec<u8>]) -> Vec<u8> {
    let mut t = vec![];
    for s in seqs {
        t.extend_from_slice(s);
        t.push(b'$');
        t.extend(s.iter().rev().map(|&c| dna_comp(c)));
        t.push(b'$');
    }
    t
}

struct FmdBase {
    text: Vec<u8>,
    sa: Vec<usize>,
    bwt: BWT,
    less: Less,
    alphabet: Alphabet,
}

fn fmd_base(seqs: &[Vec<u8>], pi: Pi) -> FmdBase {
    let text = fmd_text(seqs);
    let sa = ti::naive_sa(&text, pi);
    let bwt: BWT = ti::bwt_def(&text, &sa);
    let alphabet = Alphabet::new(b"$ACGT");
    let less: Less = ti::less_table(&text, alphabet.max_symbol().unwrap());
    FmdBase { text, sa, bwt, less, alphabet }
}

type FmRef<'a> = FMIndex<&'a BWT, &'a Less, &'a Occ>;
type FmdRef<'a> = FMDIndex<&'a BWT, &'a Less, &'a Occ>;

fn check_search_fmd(base: &FmdBase, fm: &FmRef, fmd: &FmdRef, p: &[u8], cc: &mut CaseCtx) {
    let text = &base.text[..];
    let (l, want_occ) = ti::longest_occurring_suffix_with_positions(text, p);
    cc.set_nontrivial((l > 0 && l < p.len()) || want_occ.len() >= 2);
    let want_kind = if l == p.len() {
        "Complete"
    } else if l == 0 {
        "Absent"
    } else {
        "Partial"
    };
    let plain = guard(|| fm.backward_search(p.iter()));
    let res = match guard(|| fmd.backward_search(p.iter())) {
        Err(msg) => {
            cc.outcome(&"panic");
            cc.violation("C05/fmd-backward_search/panic", format!("text {:?} pattern {:?}: {}", show(text), show(p), msg));
            return;
        }
        Ok(r) => r,
    };
    cc.outcome(&res);
    if plain.as_ref().ok() != Some(&res) {
        cc.violation(
            "C05/fmd-backward_search/differs-from-fmindex",
            format!("text {:?} pattern {:?}: FMIndex answers {:?}, FMDIndex over the same components {:?}", show(text), show(p), plain, res),
        );
    }
    let (iv, got_len): (Option<Interval>, usize) = match res {
        BackwardSearchResult::Complete(iv) => (Some(iv), p.len()),
        BackwardSearchResult::Partial(iv, ll) => (Some(iv), ll),
        BackwardSearchResult::Absent => (None, 0),
    };
    if kind_of(&res) != want_kind {
        cc.violation(
            "C05/fmd-backward_search/kind-differs",
            format!("text {:?} pattern {:?}: got {:?}; longest occurring suffix has length {} so expected {}", show(text), show(p), res, l, want_kind),
        );
        return;
    }
    if got_len != l {
        cc.violation(
            "C05/fmd-backward_search/partial-length-differs",
            format!("text {:?} pattern {:?}: got {:?}, longest occurring suffix has length {}", show(text), show(p), res, l),
        );
        return;
    }
    if let Some(iv) = iv {
        match guard(|| {
            let mut v = iv.occ(&base.sa);
            v.sort();
            v
        }) {
            Err(msg) => cc.violation("C05/fmd-backward_search/interval-occ-panic", format!("text {:?} pattern {:?} result {:?}: {}", show(text), show(p), res, msg)),
            Ok(v) => {
                if v != want_occ {
                    cc.violation(
                        "C05/fmd-backward_search/occurrences-differ",
                        format!("text {:?} pattern {:?}: {:?} maps to {:?}; suffix {:?} occurs at {:?}", show(text), show(p), res, v, show(&p[p.len() - l..]), want_occ),
                    );
                }
            }
        }
    }
}

fn fmd_desc(seqs: &[Vec<u8>], pi: Pi, k: u32, p: &[u8]) -> Value {
    json!({"kind": "search-fmd", "seqs": seqs.iter().map(|s| show(s)).collect::<Vec<_>>(), "pi": pi.name(), "k": k, "pattern": show(p)})
}

/// all patterns for one (sequence set, pi, k)
fn fmd_cases(ctx: &mut Ctx, seqs: &[Vec<u8>], base: &FmdBase, pi: Pi, k: u32, patterns: &[Vec<u8>]) {
    if ctx.res.capped {
        return;
    }
    let built = guard(|| Occ::new(&base.bwt, k, &base.alphabet));
    let occ = match built {
        Ok(o) => o,
        Err(msg) => {
            ctx.case(
                || json!({"kind": "build-fmd", "seqs": seqs.iter().map(|s| show(s)).collect::<Vec<_>>(), "pi": pi.name(), "k": k}),
                |cc| cc.violation("C05/index-construction/panic", msg.clone()),
            );
            return;
        }
    };
    let fm: FmRef = FMIndex::new(&base.bwt, &base.less, &occ);
    let fmd: FmdRef = match guard(|| FMDIndex::from(FMIndex::new(&base.bwt, &base.less, &occ))) {
        Ok(f) => f,
        Err(msg) => {
            ctx.case(
                || json!({"kind": "build-fmd", "seqs": seqs.iter().map(|s| show(s)).collect::<Vec<_>>(), "pi": pi.name(), "k": k}),
                |cc| cc.violation("C05/fmd-backward_search/construction-panic", format!("FMDIndex::from on a DNA text: {}", msg)),
            );
            return;
        }
    };
    for p in patterns {
        ctx.case(|| fmd_desc(seqs, pi, k, p), |cc| check_search_fmd(base, &fm, &fmd, p, cc));
    }
}

fn fmd_sets(tier: Tier) -> Vec<Vec<Vec<u8>>> {
    let mut sets: Vec<Vec<Vec<u8>>> = crate::gen::strings(b"AC", 1, tier.pick(5, 7)).into_iter().map(|s| vec![s]).collect();
    let short = crate::gen::strings(b"ACG", 1, 2);
    for a in &short {
        for b in &short {
            sets.push(vec![a.clone(), b.clone()]);
        }
    }
    sets
}

fn fmd_unit(tier: Tier, ctx: &mut Ctx) {
    let pats = crate::gen::strings(b"ACGT", 1, tier.pick(3, 4));
    for seqs in fmd_sets(tier) {
        let desc = fmd_base(&seqs, Pi::Desc);
        let asc = fmd_base(&seqs, Pi::Asc);
        for k in occ_rates(desc.text.len()) {
            fmd_cases(ctx, &seqs, &desc, Pi::Desc, k, &pats);
            if k == 2 || k == 5 {
                fmd_cases(ctx, &seqs, &asc, Pi::Asc, k, &pats);
            }
        }
    }
}

fn family_patterns(text: &[u8], emb: &[u8; 4], tier: Tier) -> Vec<Vec<u8>> {
    let n = text.len();
    let body = &text[..n - 1];
    let mut out = patterns(emb, tier.pick(3, 4));
    let flip = |c: u8| if c == emb[1] { emb[2] } else { emb[1] };
    let sent = emb[0];
    let lens: Vec<usize> = vec![5, 8, 13, 16, 21, 33, 64, 65, 128, n - 1, n - 2];
    for &l in &lens {
        if l == 0 || l > body.len() {
            continue;
        }
        let starts = [0usize, (body.len() - l) / 2, body.len() - l];
        for &s in &starts {
            let f = &body[s..s + l];
            if f.contains(&sent) {
                continue;
            }
            out.push(f.to_vec());
            let mut g = f.to_vec();
            g[0] = flip(g[0]); // a proper suffix still occurs: Partial with length l-1 at least
            out.push(g);
            let mut h = f.to_vec();
            h[l / 2] = flip(h[l / 2]);
            out.push(h);
            let mut e = f.to_vec();
            e[l - 1] = emb[3]; // last symbol never occurs: Absent
            out.push(e);
        }
    }
    // longer than the text
    let mut long: Vec<u8> = body.iter().copied().filter(|&c| c != sent).collect();
    long.extend_from_slice(&long.clone());
    long.push(emb[1]);
    out.push(long);
    out.sort();
    out.dedup();
    out.retain(|p| !p.is_empty());
    out
}

fn family_unit(tier: Tier, shard: usize, ctx: &mut Ctx) {
    let b = bounds_of(tier);
    for (i, body) in ti::family_bodies(tier, b.text3).iter().enumerate() {
        if i % FAMILY_SHARDS != shard {
            continue;
        }
        if body.len() > tier.pick(300, 400) {
            continue;
        }
        let emb = if i % 5 == 0 { &ti::EXTREME } else { &ti::ASCII };
        let text = ti::text_of_body(body, emb);
        let n = text.len() as u32;
        let pats = family_patterns(&text, emb, tier);
        let ks: Vec<u32> = match tier {
            Tier::Quick => vec![1, 2, 5, 64, 65, n + 3],
            Tier::Thorough => vec![1, 2, 5, 64, 65, n, n + 3],
        };
        let desc = base_of(&text, emb, Pi::Desc);
        for k in ks {
            search_cases(ctx, &text, emb, &desc, Pi::Desc, k, &pats);
            if body.contains(&0) && k == 5 {
                let asc = base_of(&text, emb, Pi::Asc);
                search_cases(ctx, &text, emb, &asc, Pi::Asc, k, &pats);
            }
        }
    }
}

impl Prop for C05Prop {
    fn id(&self) -> &'static str {
        "C05"
    }
    fn level(&self) -> &'static str {
        "exploration"
    }
    fn rule(&self) -> &'static str {
        "One case = (text, sentinel order pi of the oracle suffix array, Occ rate k, pattern): backward_search through FMIndex with borrowed, owned and Arc components (all three must agree), result kind / partial length against the longest occurring pattern suffix found by naive scanning, and Interval::occ through the full array, through sampled arrays of rates {1,2,3,n} (borrowed components) and rate 2 (Arc components) against the naive occurrence list as sorted lists. Texts: complete sweep of body.$ over {$,a,b} (any number of interior sentinels; ASCII and byte-extreme embedding), k in {1,2,5,n+3}, every pattern over {a,b,c} up to the bound (c never occurs; patterns longer than the text included); repetitive families with short patterns plus factors, one-flip factors, never-occurring last symbol and an over-long pattern, k around 64 and n. Non-trivial: the expected answer is Partial, or the matched suffix occurs at least twice. Unit fmd-route (kind search-fmd): the same check with the index wrapped into an FMDIndex (FMIndexable implemented by delegation): texts s$revcomp(s)$ for every s over {A,C} up to a length and every ordered pair of sequences over {A,C,G} of length <=2, k in {1,2,5,n+3}, both sentinel orders, every pattern over {A,C,G,T} up to a length; FMDIndex::backward_search must equal FMIndex::backward_search on the same components and the naive answer."
    }
    fn assumptions(&self) -> Vec<&'static str> {
        vec![
            "oracle: naive window comparison for occurrences and for the longest occurring suffix",
            "patterns are non-empty, sentinel-free and over the index alphabet {a,b,c}; the index alphabet is {sentinel,a,b,c}",
            "suffix array, BWT and less handed to the index are the oracle's (both sentinel orders for multi-sentinel texts); Occ, FMIndex, SampledSuffixArray and Interval::occ are the subject's",
            "order of positions inside an interval is not demanded (compared as sorted lists)",
        ]
    }
    fn bounds(&self, tier: Tier) -> Value {
        let b = bounds_of(tier);
        json!({
            "ascii {$,a,b}": {"body_len": format!("0..={}", b.text3), "patterns {a,b,c}": format!("1..={}", b.pat)},
            "byte-extreme {00,01,ff}": {"body_len": format!("0..={}", b.text_x), "patterns {01,ff,80}": format!("1..={}", b.pat_x)},
            "occ_rates": "1,2,5,n+3",
            "sentinel_orders": "desc for every k; asc for k in {2,5} on multi-sentinel texts",
            "sampled_sa_rates": "1,2,3,n (borrowed) and 2 (Arc)",
            "fmd_route": {"single_sequence {A,C} len": format!("1..={}", tier.pick(5, 7)), "ordered_pairs {A,C,G} len": "1..=2", "patterns {A,C,G,T}": format!("1..={}", tier.pick(3, 4)), "k": "1,2,5,n+3 (desc); 2,5 (asc)"},
            "families": {"texts": ti::family_bodies(tier, b.text3).iter().filter(|x| x.len() <= tier.pick(300, 400)).count(), "max_body_len": tier.pick(300, 400),
                         "k": tier.pick("1,2,5,64,65,n+3", "1,2,5,64,65,n,n+3"),
                         "patterns": "all over {a,b,c} up to 3|4, factors of lengths 5,8,13,16,21,33,64,65,128,n-2,n-1 at start/middle/end with first/middle symbol flipped or last symbol replaced by c, one pattern longer than the text"}
        })
    }
    fn units(&self, _tier: Tier) -> Vec<String> {
        let mut v: Vec<String> = (0..SWEEP_SHARDS).map(|i| format!("sweep-{}", i)).collect();
        v.extend((0..FAMILY_SHARDS).map(|i| format!("families-{}", i)));
        v.push("pipeline".into());
        v.push("fmd-route".into());
        v
    }
    fn run_unit(&self, tier: Tier, unit: usize, ctx: &mut Ctx) {
        if unit < SWEEP_SHARDS {
            sweep_unit(tier, unit, ctx)
        } else if unit < SWEEP_SHARDS + FAMILY_SHARDS {
            family_unit(tier, unit - SWEEP_SHARDS, ctx)
        } else if unit == SWEEP_SHARDS + FAMILY_SHARDS {
            pipeline_unit(tier, ctx)
        } else {
            fmd_unit(tier, ctx)
        }
    }
    fn death_key(&self, _case: &Value, how: &str) -> String {
        format!("backward_search-or-interval-occ/no-return/{}", how)
    }
    fn replay(&self, case: &Value, ctx: &mut Ctx) {
        if case["kind"] == "pipeline" {
            let r = case["reads"].as_u64().unwrap_or(1) as usize;
            let k = case["k"].as_u64().unwrap_or(1) as u32;
            let text = pipeline_text(r);
            ctx.case(|| case.clone(), |cc| check_pipeline(&text, k, cc));
            return;
        }
        if case["kind"] == "search-fmd" || case["kind"] == "build-fmd" {
            let seqs: Vec<Vec<u8>> = case["seqs"]
                .as_array()
                .map(|a| a.iter().map(|s| unshow(s.as_str().unwrap_or(""))).collect())
                .unwrap_or_default();
            let pi = Pi::parse(case["pi"].as_str().unwrap_or("desc"));
            let k = case["k"].as_u64().unwrap_or(1) as u32;
            if seqs.is_empty() || k == 0 || seqs.iter().any(|s| s.is_empty() || s.iter().any(|c| !b"ACGT".contains(c))) {
                return;
            }
            let pats: Vec<Vec<u8>> = if case["kind"] == "build-fmd" { vec![] } else { vec![unshow(case["pattern"].as_str().unwrap_or(""))] };
            if pats.iter().any(|p| p.is_empty() || p.iter().any(|c| !b"ACGT".contains(c))) {
                return;
            }
            let base = fmd_base(&seqs, pi);
            fmd_cases(ctx, &seqs, &base, pi, k, &pats);
            return;
        }
        let text = unshow(case["text"].as_str().unwrap_or(""));
        if !ti::is_valid_text(&text) {
            return;
        }
        let emb = ti::embedding(case["alphabet"].as_str().unwrap_or("ascii"));
        let pi = Pi::parse(case["pi"].as_str().unwrap_or("desc"));
        let k = case["k"].as_u64().unwrap_or(1) as u32;
        let p = unshow(case["pattern"].as_str().unwrap_or(""));
        let pats = if case["kind"] == "build" { vec![] } else { vec![p] };
        let base = base_of(&text, emb, pi);
        let r = with_index(&text, &base, k, |idx| {
            for p in &pats {
                ctx.case(|| case.clone(), |cc| check_search(idx, p, cc));
            }
        });
        if let Err(msg) = r {
            ctx.case(|| case.clone(), |cc| cc.violation("C05/index-construction/panic", msg.clone()));
        }
    }
}
