//! C04 — bwt / less / Occ tables are exact and the BWT is invertible.
//!
//! The suffix array handed to `bwt` is the oracle's (valid by construction, under either sentinel
//! order), so nothing here depends on SA-IS.  `Occ` is only ever fed genuine BWTs: the BWTs of all
//! small texts, of the repetitive families, and — for the k > 64 look-ahead shortcut — of
//! multi-sequence texts c1$c2$...cn$ whose BWT is reverse(c)·$^n, which places one or two rare
//! symbols at every pair of rows relative to the checkpoints.

use super::Prop;
use crate::ctx::{guard, show, unshow, CaseCtx, Ctx, Tier};
use crate::oracles::text_index as ti;
use crate::oracles::text_index::Pi;
use bio::alphabets::Alphabet;
use bio::data_structures::bwt::{bwt, invert_bwt, less, Occ};
use bio::utils::{prescan, scan};
use serde_json::{json, Value};
use std::cell::Cell;

pub struct C04Prop;
pub static C04: C04Prop = C04Prop;

/// Alphabet variants: 0 = exactly the text's symbols, 1 = plus one absent symbol inside the range,
/// 2 = plus two absent symbols, one of them above every text symbol (when there is room).
const N_VARIANTS: usize = 3;

fn alphabet_symbols(text: &[u8], variant: usize) -> Vec<u8> {
    let sent = *text.last().unwrap();
    let mut syms: Vec<u8> = text.to_vec();
    // absent symbols are chosen relative to the sentinel so that they work for both embeddings
    let (mid, high): (u8, u8) = if sent == b'$' { (b'B', b'z') } else { (sent.wrapping_add(0x7F), 0xFF) };
    if variant >= 1 {
        syms.push(mid);
    }
    if variant >= 2 {
        syms.push(high);
    }
    syms.sort();
    syms.dedup();
    syms
}

fn k_class(k: u32) -> &'static str {
    if k > 64 {
        "k>64"
    } else {
        "k<=64"
    }
}

// ------------------------------------------------------------------------------------------------
// kind "tables": bwt, less (three alphabets), invert_bwt
// ------------------------------------------------------------------------------------------------

fn check_tables(text: &[u8], pi: Pi, cc: &mut CaseCtx) {
    let n = text.len();
    let sa = ti::naive_sa(text, pi);
    let want_bwt = ti::bwt_def(text, &sa);
    cc.set_nontrivial(ti::nontrivial_text(text));
    match guard(|| bwt(text, &sa)) {
        Err(msg) => cc.violation("C04/bwt/panic", msg),
        Ok(got) => {
            cc.outcome(&got);
            if got != want_bwt {
                cc.violation(
                    "C04/bwt/wrong-symbol",
                    format!("bwt({:?}, {:?}) = {:?}, by definition {:?}", show(text), sa, show(&got), show(&want_bwt)),
                );
            }
        }
    }
    for variant in 0..N_VARIANTS {
        let syms = alphabet_symbols(text, variant);
        let alphabet = Alphabet::new(&syms);
        match guard(|| less(&want_bwt, &alphabet)) {
            Err(msg) => cc.violation("C04/less/panic", format!("alphabet {:?}: {}", show(&syms), msg)),
            Ok(got) => {
                cc.outcome(&got.len());
                for &c in &syms {
                    let want = ti::less_count(text, c as usize);
                    match got.get(c as usize) {
                        Some(&g) if g == want => {}
                        other => {
                            cc.violation(
                                "C04/less/wrong-count",
                                format!(
                                    "text {:?} alphabet {:?}: less[{:#04x}] = {:?}, {} symbols are smaller",
                                    show(text), show(&syms), c, other, want
                                ),
                            );
                            break;
                        }
                    }
                }
            }
        }
    }
    if ti::sentinel_count(text) == 1 {
        match guard(|| invert_bwt(&want_bwt)) {
            Err(msg) => cc.violation("C04/invert_bwt/panic", msg),
            Ok(inv) => {
                cc.outcome(&inv);
                if inv != text {
                    cc.violation(
                        "C04/invert_bwt/differs",
                        format!("invert_bwt({:?}) = {:?}, text {:?}", show(&want_bwt), show(&inv), show(text)),
                    );
                }
            }
        }
    }
    let _ = n;
}

// ------------------------------------------------------------------------------------------------
// kind "occ": one (BWT of a text, alphabet variant, k); every row, every alphabet symbol
// ------------------------------------------------------------------------------------------------

/// does the look-ahead branch of a k > 64 table fire for some row?  (statistic / non-triviality)
fn rows_in_lookahead_zone(n: usize, k: usize) -> u64 {
    if k <= 64 {
        return 0;
    }
    (0..n)
        .filter(|&r| {
            let hi = (r / k + 1) * k;
            hi <= n - 1 && hi - r < k / 2
        })
        .count() as u64
}

fn check_occ(bw: &[u8], syms: &[u8], k: u32, cc: &mut CaseCtx) {
    let n = bw.len();
    let ku = k as usize;
    let zone = rows_in_lookahead_zone(n, ku);
    // some row lies strictly between checkpoints; for k > 64 some row is in the look-ahead zone
    cc.set_nontrivial(if k > 64 { zone > 0 } else { k >= 2 && n >= 2 });
    if zone > 0 {
        cc.count("occ_rows_in_lookahead_zone", zone);
    }
    let alphabet = Alphabet::new(syms);
    let at: Cell<(usize, u8)> = Cell::new((0, 0));
    let mut first_bad: Option<(usize, u8, usize, usize)> = None;
    let mut acc: u64 = 0;
    let r = guard(|| {
        let occ = Occ::new(bw, k, &alphabet);
        for &c in syms {
            let mut want = 0usize;
            for r in 0..n {
                if bw[r] == c {
                    want += 1;
                }
                at.set((r, c));
                let got = occ.get(bw, r, c);
                acc = acc.wrapping_mul(31).wrapping_add(got as u64);
                if got != want && first_bad.is_none() {
                    first_bad = Some((r, c, got, want));
                }
            }
        }
    });
    cc.outcome(&acc);
    if let Err(msg) = r {
        let (r, c) = at.get();
        cc.violation(
            format!("C04/occ/{}/panic", k_class(k)),
            format!("bwt {:?} k={} alphabet {:?}: at or before get(r={}, c={:#04x}): {}", show(bw), k, show(syms), r, c, msg),
        );
        return;
    }
    if let Some((r, c, got, want)) = first_bad {
        cc.violation(
            format!("C04/occ/{}/wrong-count", k_class(k)),
            format!(
                "bwt {:?} k={} alphabet {:?}: get(r={}, c={:#04x}) = {}, counting gives {}",
                show(bw), k, show(syms), r, c, got, want
            ),
        );
    }
}

/// every possible largest symbol: texts M M s over the alphabet {s, M} for every byte M > s,
/// sentinel s in {0x00, '$'} — table sizes and the '$'-row special case of Occ::new depend on the
/// largest symbol, not on the text
fn maxsym_unit(ctx: &mut Ctx) {
    for s in [0u8, b'$'] {
        for m in (s as usize + 1)..=255 {
            let m = m as u8;
            for text in [vec![m, m, s], vec![m, s, m, s]] {
                for k in [1u32, 3] {
                    ctx.case(
                        || json!({"kind": "occ-maxsym", "text": show(&text), "k": k}),
                        |cc| {
                            let sa = ti::naive_sa(&text, Pi::Desc);
                            let bw = ti::bwt_def(&text, &sa);
                            let mut syms = text.clone();
                            syms.sort();
                            syms.dedup();
                            check_occ(&bw, &syms, k, cc);
                            cc.set_nontrivial(true);
                        },
                    );
                }
            }
        }
    }
}

fn occ_desc(text: &[u8], pi: Pi, variant: usize, k: u32) -> Value {
    json!({"kind": "occ", "text": show(text), "pi": pi.name(), "alphabet_variant": variant, "k": k})
}

fn occ_cases(ctx: &mut Ctx, text: &[u8], pi: Pi, variants: &[usize], ks: &[u32]) {
    let sa = ti::naive_sa(text, pi);
    let bw = ti::bwt_def(text, &sa);
    for &v in variants {
        let syms = alphabet_symbols(text, v);
        for &k in ks {
            ctx.case(|| occ_desc(text, pi, v, k), |cc| check_occ(&bw, &syms, k, cc));
        }
    }
}

// ------------------------------------------------------------------------------------------------
// units
// ------------------------------------------------------------------------------------------------

struct Bounds {
    /// {$,a,b}: tables + Occ with every k in 1..=2n
    small3: usize,
    /// {$,a,b,c}
    small4: usize,
    /// byte-extreme embedding of {$,a,b,c} bodies
    small_x: usize,
    /// single-letter multi-sequence texts c1$...cn$ for every c in {a,b}^n, n up to
    seqs: usize,
}

fn bounds_of(tier: Tier) -> Bounds {
    match tier {
        Tier::Quick => Bounds { small3: 11, small4: 9, small_x: 7, seqs: 10 },
        Tier::Thorough => Bounds { small3: 13, small4: 11, small_x: 9, seqs: 13 },
    }
}

const SWEEP_SHARDS: usize = 24;
const LOOKAHEAD_SHARDS: usize = 20;
const FAMILY_SHARDS: usize = 8;

fn tables_case(ctx: &mut Ctx, text: &[u8], pi: Pi) {
    ctx.case(
        || json!({"kind": "tables", "text": show(text), "pi": pi.name()}),
        |cc| check_tables(text, pi, cc),
    );
}

fn small_text(ctx: &mut Ctx, text: &[u8], multi: bool) {
    let n = text.len() as u32;
    let ks: Vec<u32> = (1..=2 * n).collect();
    tables_case(ctx, text, Pi::Desc);
    occ_cases(ctx, text, Pi::Desc, &[0, 2], &ks);
    if multi {
        tables_case(ctx, text, Pi::Asc);
        occ_cases(ctx, text, Pi::Asc, &[1], &ks);
    }
}

fn sweep_unit(tier: Tier, shard: usize, ctx: &mut Ctx) {
    let b = bounds_of(tier);
    let plan: [(u8, &[u8; 4], usize); 3] =
        [(3, &ti::ASCII, b.small3), (4, &ti::ASCII, b.small4), (4, &ti::EXTREME, b.small_x)];
    for (pidx, (radix, emb, maxlen)) in plan.iter().enumerate() {
        ti::for_each_body(*radix, 0, *maxlen, shard, SWEEP_SHARDS, |_, body| {
            if pidx == 1 && !body.contains(&3) {
                return;
            }
            if ctx.res.capped {
                return;
            }
            let text = ti::text_of_body(body, emb);
            small_text(ctx, &text, body.contains(&0));
        });
    }
    // every string over {a,b} as the first half of a genuine BWT: text c1$c2$...cn$
    ti::for_each_body(2, 1, b.seqs, shard, SWEEP_SHARDS, |_, c| {
        let mut body = vec![];
        for (i, &d) in c.iter().enumerate() {
            if i > 0 {
                body.push(0);
            }
            body.push(d + 1);
        }
        let text = ti::text_of_body(&body, &ti::ASCII);
        if body.len() > b.small3 {
            // (shorter ones are part of the ternary sweep above)
            small_text(ctx, &text, true);
        }
    });
}

fn lookahead_ns(tier: Tier) -> Vec<usize> {
    match tier {
        Tier::Quick => vec![100, 110, 120, 129, 131, 140, 150, 160, 180, 195, 200],
        Tier::Thorough => vec![100, 110, 120, 129, 130, 131, 140, 150, 160, 170, 180, 190, 195, 200, 260],
    }
}

fn lookahead_ks(tier: Tier) -> Vec<u32> {
    match tier {
        Tier::Quick => vec![64, 65, 66, 100, 128, 129, 130],
        Tier::Thorough => {
            let mut v: Vec<u32> = (63..=72).collect();
            v.extend([96, 97, 98, 99, 100, 101, 126, 127, 128, 129, 130, 131, 132, 192, 193, 255, 256, 257]);
            v
        }
    }
}

/// texts c1$c2$...cn$ with c = x^n carrying at most two `a` (all position pairs) and the
/// colour-swapped strings; BWT = reverse(c)·$^n under the `desc` sentinel order.
fn lookahead_unit(tier: Tier, shard: usize, ctx: &mut Ctx) {
    let ks = lookahead_ks(tier);
    let mut idx = 0usize;
    for n in lookahead_ns(tier) {
        for swap in [false, true] {
            let (bg, fg) = if swap { (b'a', b'x') } else { (b'x', b'a') };
            // (i, j) with i <= j; i == j == n means "no rare symbol", i == j < n one, i < j two
            for i in 0..=n {
                for j in i..=n {
                    if (i == n) != (j == n) {
                        continue;
                    }
                    idx += 1;
                    if idx % LOOKAHEAD_SHARDS != shard {
                        continue;
                    }
                    let mut text = Vec::with_capacity(2 * n);
                    for p in 0..n {
                        text.push(if p == i || p == j { fg } else { bg });
                        text.push(b'$');
                    }
                    // alphabet variant 1 adds the absent symbol 'B'
                    occ_cases(ctx, &text, Pi::Desc, &[1], &ks);
                }
            }
        }
    }
}

fn family_unit(tier: Tier, shard: usize, ctx: &mut Ctx) {
    for (i, body) in ti::family_bodies(tier, bounds_of(tier).small3).iter().enumerate() {
        if i % FAMILY_SHARDS != shard {
            continue;
        }
        let text = ti::text_of_body(body, if i % 5 == 0 { &ti::EXTREME } else { &ti::ASCII });
        let n = text.len() as u32;
        let multi = body.contains(&0);
        tables_case(ctx, &text, Pi::Desc);
        if multi {
            tables_case(ctx, &text, Pi::Asc);
        }
        let mut ks: Vec<u32> = vec![1, 2, 3, 7, 8, 31, 32, 33, 63, 64, 65, 66, 100, 128, 129, 130, n - 1, n, n + 1, 2 * n];
        if tier == Tier::Quick {
            ks.retain(|&k| ![7, 31, 33, 66, 129].contains(&k));
        }
        if n >= 300 {
            // blocks longer than 255 rows: in-block counts no longer fit a byte
            ks.extend([256, 257, 300, 511, 512]);
        }
        ks.retain(|&k| k >= 1);
        ks.sort();
        ks.dedup();
        occ_cases(ctx, &text, Pi::Desc, &[2], &ks);
    }
}

// ------------------------------------------------------------------------------------------------
// kind "scan": utils::scan (inclusive) and utils::prescan (exclusive) on one non-empty slice
// ------------------------------------------------------------------------------------------------

/// the three slice values a digit stands for (a negative one, so that `max` is not `sum` in disguise)
const SCAN_VALUES: [i64; 3] = [-2, 0, 3];
const SCAN_SHARDS: usize = 2;

/// associative but not commutative: concatenation of digit strings, as (length, value in base 4)
fn cat(a: (u32, u64), b: (u32, u64)) -> (u32, u64) {
    (a.0 + b.0, a.1 * 4u64.pow(b.0) + b.1)
}

/// a[0] op a[1] op ... op a[i], by definition (left to right, quadratic overall)
fn fold_upto<T: Copy>(a: &[T], i: usize, op: impl Fn(T, T) -> T) -> T {
    let mut acc = a[0];
    for &v in &a[1..=i] {
        acc = op(acc, v);
    }
    acc
}

fn scan_one<T: Copy + PartialEq + std::fmt::Debug>(
    name: &str,
    input: &[T],
    neutral: T,
    op: impl Fn(T, T) -> T + Copy,
    cc: &mut CaseCtx,
) {
    let n = input.len();
    // inclusive: out[i] = a[0] op .. op a[i]
    let want_scan: Vec<T> = (0..n).map(|i| fold_upto(input, i, op)).collect();
    // exclusive: out[0] = neutral, out[i] = neutral op a[0] op .. op a[i-1]
    let want_pre: Vec<T> = (0..n).map(|i| if i == 0 { neutral } else { op(neutral, fold_upto(input, i - 1, op)) }).collect();
    let mut a = input.to_vec();
    match guard(|| {
        scan(&mut a[..], op);
    }) {
        Err(msg) => cc.violation("C04/scan/panic", format!("scan({:?}, {}): {}", input, name, msg)),
        Ok(()) => {
            if a != want_scan {
                cc.violation(
                    "C04/scan/wrong-value",
                    format!("scan({:?}, {}) left {:?}, inclusive prefix results are {:?}", input, name, a, want_scan),
                );
            }
        }
    }
    let mut b = input.to_vec();
    match guard(|| {
        prescan(&mut b[..], neutral, op);
    }) {
        Err(msg) => cc.violation("C04/prescan/panic", format!("prescan({:?}, {:?}, {}): {}", input, neutral, name, msg)),
        Ok(()) => {
            if b != want_pre {
                cc.violation(
                    "C04/prescan/wrong-value",
                    format!("prescan({:?}, {:?}, {}) left {:?}, exclusive prefix results are {:?}", input, neutral, name, b, want_pre),
                );
            }
        }
    }
}

fn check_scan(digits: &[u8], cc: &mut CaseCtx) {
    if digits.is_empty() || digits.iter().any(|&d| d as usize >= SCAN_VALUES.len()) {
        return; // the empty slice is outside what the documentation defines
    }
    let vals: Vec<i64> = digits.iter().map(|&d| SCAN_VALUES[d as usize]).collect();
    let counts: Vec<usize> = digits.iter().map(|&d| d as usize).collect();
    let words: Vec<(u32, u64)> = digits.iter().map(|&d| (1u32, d as u64 + 1)).collect();
    cc.set_nontrivial(digits.len() >= 2 && digits.iter().any(|&d| d != digits[0]));
    cc.outcome(&vals.iter().sum::<i64>());
    cc.outcome(&vals.iter().max());
    scan_one("+", &vals, 0i64, |x, y| x + y, cc);
    scan_one("max", &vals, i64::MIN, |x: i64, y: i64| x.max(y), cc);
    scan_one("min", &vals, i64::MAX, |x: i64, y: i64| x.min(y), cc);
    // the element type and operation `less` uses
    scan_one("+usize", &counts, 0usize, |x, y| x + y, cc);
    scan_one("concat", &words, (0u32, 0u64), cat, cc);
}

fn scan_unit(tier: Tier, shard: usize, ctx: &mut Ctx) {
    let maxlen = tier.pick(10, 12);
    ti::for_each_body(3, 1, maxlen, shard, SCAN_SHARDS, |_, d| {
        ctx.case(|| json!({"kind": "scan", "digits": d, "values": SCAN_VALUES}), |cc| check_scan(d, cc));
    });
}

impl Prop for C04Prop {
    fn id(&self) -> &'static str {
        "C04"
    }
    fn level(&self) -> &'static str {
        "exploration"
    }
    fn rule(&self) -> &'static str {
        "Texts as in C03 (complete sweep of body.$ over {$,a,b}/{$,a,b,c} in two byte embeddings, repetitive families in several sentinel layouts) with the oracle's suffix array under sentinel order desc and, for multi-sentinel texts, asc. Case kinds: tables = one (text, pi): bwt() against 'symbol cyclically preceding the r-th suffix', less() for three alphabets (own symbols, +1 absent, +2 absent incl. one above the maximum) at every alphabet symbol, invert_bwt for single-sentinel texts; occ = one (BWT of a text, alphabet variant, k): Occ::new then Occ::get for every row and every alphabet symbol (including absent ones and the sentinel) against counting. Small texts take every k in 1..=2n; the look-ahead family (texts c1$...cn$, n in 100..=200(260), at most two rare symbols at every position pair, both colourings; BWT = reverse(c).$^n) takes k around 64/100/128(/192/256). Non-trivial: tables: text has a twice-occurring factor of length 2 or >=2 sentinels; occ: k<=64: k>=2 and n>=2 (a row strictly between checkpoints); k>64: some row lies within k/2 below an existing checkpoint (the look-ahead branch is eligible), counted in occ_rows_in_lookahead_zone. scan = one non-empty slice over three values {-2,0,3} (every slice up to the length bound): utils::scan (inclusive) and utils::prescan (exclusive, with the operation's neutral element) for +, max, min on i64, + on usize (what less() uses) and a non-commutative associative concatenation, against left-to-right folding by definition; non-trivial: length >= 2 and not constant."
    }
    fn assumptions(&self) -> Vec<&'static str> {
        vec![
            "oracle: naive suffix sort, cyclic predecessor, counting",
            "Occ is only fed BWTs of valid sentinel-terminated texts and alphabets that contain all text symbols (what the statement quantifies over); k ranges over 1..=2n for small texts",
            "less is compared at alphabet symbols only (the statement does not fix entries for bytes outside the alphabet)",
            "invert_bwt only for single-sentinel texts",
            "scan/prescan: only non-empty slices (the documentation does not define scan on an empty slice) and only associative operations; prescan is given the operation's neutral element",
        ]
    }
    fn bounds(&self, tier: Tier) -> Value {
        let b = bounds_of(tier);
        json!({
            "ternary {$,a,b} body_len": format!("0..={}", b.small3),
            "quaternary {$,a,b,c} body_len": format!("0..={}", b.small4),
            "byte-extreme {00,01,ff,80} body_len": format!("0..={}", b.small_x),
            "single-letter multi-sequence texts c1$..cn$, c in {a,b}^n": format!("n in 2..={}", b.seqs),
            "small texts": "every k in 1..=2n; alphabet variants 0 and 2 (desc), 1 (asc)",
            "lookahead family": {"n": lookahead_ns(tier), "k": lookahead_ks(tier), "strings": "x^n with <=2 a at every position pair, and colour-swapped; BWT length 2n"},
            "scan": {"slice_len": format!("1..={}", tier.pick(10, 12)), "values": SCAN_VALUES, "ops": "+, max, min (i64), + (usize), concat ((u32,u64), non-commutative)"},
            "families": {"texts": ti::family_bodies(tier, b.small3).len(), "k": "1,2,3,(7),8,(31),32,(33),63,64,65,(66),100,128,(129),130,n-1,n,n+1,2n"}
        })
    }
    fn units(&self, _tier: Tier) -> Vec<String> {
        let mut v: Vec<String> = (0..SWEEP_SHARDS).map(|i| format!("sweep-{}", i)).collect();
        v.extend((0..LOOKAHEAD_SHARDS).map(|i| format!("lookahead-{}", i)));
        v.extend((0..FAMILY_SHARDS).map(|i| format!("families-{}", i)));
        v.extend((0..SCAN_SHARDS).map(|i| format!("scan-{}", i)));
        v.push("occ-max-symbol".into());
        v
    }
    fn run_unit(&self, tier: Tier, unit: usize, ctx: &mut Ctx) {
        if unit < SWEEP_SHARDS {
            sweep_unit(tier, unit, ctx)
        } else if unit < SWEEP_SHARDS + LOOKAHEAD_SHARDS {
            lookahead_unit(tier, unit - SWEEP_SHARDS, ctx)
        } else if unit < SWEEP_SHARDS + LOOKAHEAD_SHARDS + FAMILY_SHARDS {
            family_unit(tier, unit - SWEEP_SHARDS - LOOKAHEAD_SHARDS, ctx)
        } else if unit < SWEEP_SHARDS + LOOKAHEAD_SHARDS + FAMILY_SHARDS + SCAN_SHARDS {
            scan_unit(tier, unit - SWEEP_SHARDS - LOOKAHEAD_SHARDS - FAMILY_SHARDS, ctx)
        } else {
            maxsym_unit(ctx)
        }
    }
    fn death_key(&self, case: &Value, how: &str) -> String {
        format!("{}/no-return/{}", case["kind"].as_str().unwrap_or("unknown"), how)
    }
    fn replay(&self, case: &Value, ctx: &mut Ctx) {
        if case["kind"] == "scan" {
            let d: Vec<u8> = serde_json::from_value(case["digits"].clone()).unwrap_or_default();
            ctx.case(|| case.clone(), |cc| check_scan(&d, cc));
            return;
        }
        let text = unshow(case["text"].as_str().unwrap_or(""));
        if !ti::is_valid_text(&text) {
            return;
        }
        let pi = Pi::parse(case["pi"].as_str().unwrap_or("desc"));
        match case["kind"].as_str().unwrap_or("") {
            "tables" => ctx.case(|| case.clone(), |cc| check_tables(&text, pi, cc)),
            "occ-maxsym" => {
                let k = case["k"].as_u64().unwrap_or(1) as u32;
                let sa = ti::naive_sa(&text, Pi::Desc);
                let bw = ti::bwt_def(&text, &sa);
                let mut syms = text.clone();
                syms.sort();
                syms.dedup();
                ctx.case(|| case.clone(), |cc| check_occ(&bw, &syms, k, cc));
            }
            "occ" => {
                let v = case["alphabet_variant"].as_u64().unwrap_or(0) as usize;
                let k = case["k"].as_u64().unwrap_or(1) as u32;
                let sa = ti::naive_sa(&text, pi);
                let bw = ti::bwt_def(&text, &sa);
                let syms = alphabet_symbols(&text, v);
                ctx.case(|| case.clone(), |cc| check_occ(&bw, &syms, k, cc));
            }
            _ => {}
        }
    }
}
