//! C07 — interval trees and the annotation map report exactly the overlapping entries; the AVL
//! tree stays height-balanced.
//!
//! K2 (model checking): breadth-first search over insert / find_mut / index histories executed on
//! the real objects next to a `Vec` model, states merged on a rendering of *every* field of the
//! real object (read through their serde_json rendering, the types derive `Serialize` over all their
//! private fields) plus the model.  K1 families for the sizes the K2 search cannot reach: long
//! monotone / zig-zag / tie-heavy insertion orders for the AVL tree (n up to 200 / 400) and unit
//! staircases with one or two long members, all short/long labelings and insert-after-index
//! schedules for the array-backed tree (whose implicit-tree arithmetic only matters for n >= 16).

use super::Prop;
use crate::bfs;
use crate::ctx::{guard, CaseCtx, Ctx, Tier};
use crate::gen;
use bio::data_structures::annot_map::AnnotMap;
use bio::data_structures::interval_tree::{ArrayBackedIntervalTree, IntervalTree};
use bio_types::annot::contig::Contig;
use bio_types::annot::loc::Loc;
use bio_types::annot::pos::Pos;
use bio::utils::Interval;
use bio_types::strand::ReqStrand;
use serde::{Deserialize, Serialize};
use serde_json::{json, Value};
use std::fmt::Write as _;
use std::iter::FromIterator;
use std::ops::Neg;

pub struct C07Prop;
pub static C07: C07Prop = C07Prop;

/// (start, end, payload)
type Ent = (i64, i64, u32);

// ------------------------------------------------------------------------------- reference model

/// the whole oracle: half-open overlap, naive filter, result as a sorted multiset
fn overlaps(a: i64, b: i64, qa: i64, qb: i64) -> bool {
    a < qb && qa < b
}

/// `model` must be sorted; the answer then is, too
fn expected(model: &[Ent], qa: i64, qb: i64) -> Vec<Ent> {
    model
        .iter()
        .filter(|e| overlaps(e.0, e.1, qa, qb))
        .cloned()
        .collect()
}

/// both sorted; true iff `got` is a sub-multiset of `want`
fn sub_multiset<T: Ord>(got: &[T], want: &[T]) -> bool {
    let mut j = 0;
    for g in got {
        while j < want.len() && want[j] < *g {
            j += 1;
        }
        if j >= want.len() || want[j] != *g {
            return false;
        }
        j += 1;
    }
    true
}

/// "missing" when everything returned is right but something is absent, "spurious" when
/// something was returned that should not have been (wrong entry, wrong payload, or twice)
fn symptom<T: Ord>(got: &[T], want: &[T]) -> &'static str {
    if sub_multiset(got, want) {
        "missing"
    } else {
        "spurious"
    }
}

/// smallest number of nodes of an AVL tree of height h (h >= 0): N(0)=0, N(1)=1, N(h)=N(h-1)+N(h-2)+1.
/// n >= N(h) is the exact form of "height <= 1.4405 log2(n+2) - 0.33".
fn min_nodes_for_height(h: i64) -> u64 {
    let (mut a, mut b) = (0u64, 1u64); // N(0), N(1)
    if h <= 0 {
        return 0;
    }
    for _ in 1..h {
        let c = a + b + 1;
        a = b;
        b = c;
    }
    b
}

// ------------------------------------------------------------- reading the AVL tree through serde

#[derive(Default)]
struct Walk {
    ents: Vec<Ent>,
    /// every field of every node, in-order with explicit structure
    key: String,
    /// structure + (start,end,value) only; used to detect rotations
    shape: String,
    problems: Vec<(&'static str, String)>,
}

impl Walk {
    fn problem(&mut self, k: &'static str, d: String) {
        if !self.problems.iter().any(|p| p.0 == k) {
            self.problems.push((k, d));
        }
    }
}

struct Sub {
    h: i64,
    mx: i64,
    lo: i64,
    hi: i64,
}

/// Minimal reader for the compact JSON text `serde_json::to_writer` produces for these types
/// (objects, integers, null, plain strings).  Going through text instead of `serde_json::Value`
/// avoids ~10 allocations per node; the text is the complete serde rendering of the object.
struct Js<'a> {
    b: &'a [u8],
    i: usize,
}

impl<'a> Js<'a> {
    fn peek(&self) -> u8 {
        *self.b.get(self.i).unwrap_or(&0)
    }
    fn eat(&mut self, c: u8) -> Result<(), String> {
        if self.peek() == c {
            self.i += 1;
            Ok(())
        } else {
            Err(format!("expected '{}' at byte {}", c as char, self.i))
        }
    }
    fn null(&mut self) -> bool {
        if self.b[self.i.min(self.b.len())..].starts_with(b"null") {
            self.i += 4;
            true
        } else {
            false
        }
    }
    fn int(&mut self) -> Result<i64, String> {
        let st = self.i;
        if self.peek() == b'-' {
            self.i += 1;
        }
        while self.peek().is_ascii_digit() {
            self.i += 1;
        }
        std::str::from_utf8(&self.b[st..self.i])
            .ok()
            .and_then(|t| t.parse::<i64>().ok())
            .ok_or_else(|| format!("expected an integer at byte {}", st))
    }
    /// a string without escapes (field names, reference ids)
    fn string(&mut self) -> Result<&'a [u8], String> {
        self.eat(b'"')?;
        let st = self.i;
        while self.peek() != b'"' && self.peek() != 0 && self.peek() != b'\\' {
            self.i += 1;
        }
        let out = &self.b[st..self.i];
        self.eat(b'"')?;
        Ok(out)
    }
    fn key(&mut self) -> Result<&'a [u8], String> {
        let k = self.string()?;
        self.eat(b':')?;
        Ok(k)
    }
    /// after a member: true if another member follows, false if the object was closed
    fn more(&mut self) -> Result<bool, String> {
        if self.peek() == b',' {
            self.i += 1;
            Ok(true)
        } else {
            self.eat(b'}')?;
            Ok(false)
        }
    }
}

/// one node (or null); pre-order rendering `(s,e,v,m,h L R)` into the key, `(s,e,v L R)` into
/// the shape, `.` for an absent child; invariants are evaluated on the way back up
fn walk_node(js: &mut Js, w: &mut Walk) -> Result<Option<Sub>, String> {
    if js.null() {
        w.key.push('.');
        w.shape.push('.');
        return Ok(None);
    }
    js.eat(b'{')?;
    let (mut s, mut e, mut val, mut m, mut h) = (None, None, None, None, None);
    let mut emitted = false;
    let mut children = 0;
    let mut sub = Sub { h: 0, mx: 0, lo: 0, hi: 0 };
    let (mut hl, mut hr) = (0i64, 0i64);
    loop {
        let k = js.key()?;
        match k {
            b"interval" => {
                js.eat(b'{')?;
                loop {
                    match js.key()? {
                        b"start" => s = Some(js.int()?),
                        b"end" => e = Some(js.int()?),
                        other => return Err(format!("unknown interval field {:?}", String::from_utf8_lossy(other))),
                    }
                    if !js.more()? {
                        break;
                    }
                }
            }
            b"value" => val = Some(js.int()?),
            b"max" => m = Some(js.int()?),
            b"height" => h = Some(js.int()?),
            b"left" | b"right" => {
                let (s, e) = match (s, e, val, m, h) {
                    (Some(s), Some(e), Some(val), Some(m), Some(h)) => {
                        if !emitted {
                            emitted = true;
                            sub = Sub { h: 0, mx: e, lo: s, hi: s };
                            let _ = write!(w.key, "({},{},{},{},{}", s, e, val, m, h);
                            let _ = write!(w.shape, "({},{},{}", s, e, val);
                            w.ents.push((s, e, val as u32));
                        }
                        (s, e)
                    }
                    _ => return Err("child link rendered before the node's own fields".into()),
                };
                if (k == b"left") != (children == 0) {
                    return Err("children not rendered as left, right".into());
                }
                children += 1;
                if let Some(c) = walk_node(js, w)? {
                    sub.mx = sub.mx.max(c.mx);
                    sub.lo = sub.lo.min(c.lo);
                    sub.hi = sub.hi.max(c.hi);
                    if k == b"left" {
                        hl = c.h;
                        if c.hi > s {
                            w.problem("order-invariant", format!("left subtree of node {}..{} contains start {}", s, e, c.hi));
                        }
                    } else {
                        hr = c.h;
                        if c.lo < s {
                            w.problem("order-invariant", format!("right subtree of node {}..{} contains start {}", s, e, c.lo));
                        }
                    }
                }
            }
            other => return Err(format!("unknown node field {:?}", String::from_utf8_lossy(other))),
        }
        if !js.more()? {
            break;
        }
    }
    if children != 2 {
        return Err("node without both child links".into());
    }
    w.key.push(')');
    w.shape.push(')');
    let (s, e, m, h) = (s.unwrap(), e.unwrap(), m.unwrap(), h.unwrap());
    sub.h = 1 + hl.max(hr);
    if (hl - hr).abs() > 1 {
        w.problem("unbalanced", format!("node {}..{}: subtree heights {} and {}", s, e, hl, hr));
    }
    if h != sub.h {
        w.problem("height-field-wrong", format!("node {}..{}: stored height {} actual {}", s, e, h, sub.h));
    }
    if m < sub.mx {
        w.problem("max-field-too-small", format!("node {}..{}: stored max {} subtree max end {}", s, e, m, sub.mx));
    }
    if m > sub.mx {
        w.problem("max-field-too-large", format!("node {}..{}: stored max {} subtree max end {}", s, e, m, sub.mx));
    }
    Ok(Some(sub))
}

/// `{"root": null | node}`; returns the walk and the actual height
fn walk_tree(js: &mut Js) -> (Walk, i64) {
    let mut w = Walk::default();
    let mut height = 0;
    let r = (|| -> Result<(), String> {
        js.eat(b'{')?;
        if js.key()? != b"root" {
            return Err("tree without root field".into());
        }
        if let Some(s) = walk_node(js, &mut w)? {
            height = s.h;
        }
        js.eat(b'}')
    })();
    if let Err(msg) = r {
        w.problem("serde-shape", format!("tree rendering not understood ({}): {}", msg, String::from_utf8_lossy(js.b)));
    }
    (w, height)
}

thread_local! {
    static JSON_BUF: std::cell::RefCell<Vec<u8>> = std::cell::RefCell::new(Vec::with_capacity(4096));
}

/// every field of the real tree, through its `Serialize` implementation
fn render_tree(tree: &IntervalTree<i64, u32>) -> (Walk, i64) {
    JSON_BUF.with(|b| {
        let mut buf = b.borrow_mut();
        buf.clear();
        if let Err(e) = serde_json::to_writer(&mut *buf, tree) {
            let mut w = Walk::default();
            w.problem("serde-shape", e.to_string());
            return (w, 0);
        }
        let mut js = Js { b: &buf[..], i: 0 };
        let r = walk_tree(&mut js);
        if js.i != buf.len() && r.0.problems.is_empty() {
            let mut r = r;
            r.0.problem("serde-shape", "trailing text after the tree".into());
            return r;
        }
        r
    })
}

struct Rendered {
    key: String,
    shape: String,
    height: i64,
}

/// structural clause: all stored entries present exactly once, ordering, balance, height and max
/// fields.  `what` is the key segment ("avl" or "annotmap").  Returns None after a violation.
fn avl_structure(walked: (Walk, i64), model_sorted: &[Ent], what: &str, cc: &mut CaseCtx) -> Option<Rendered> {
    let (mut w, height) = walked;
    let mut ok = true;
    for (k, d) in w.problems.drain(..) {
        cc.violation(format!("C07/{}/{}", what, k), d);
        ok = false;
    }
    if w.ents.len() != model_sorted.len() {
        cc.violation(
            format!("C07/{}/node-count", what),
            format!("{} nodes after {} insertions", w.ents.len(), model_sorted.len()),
        );
        ok = false;
    } else {
        let mut got = w.ents.clone();
        got.sort();
        if got != model_sorted {
            cc.violation(
                format!("C07/{}/contents-differ", what),
                format!("nodes hold {:?}, inserted {:?}", got, model_sorted),
            );
            ok = false;
        }
    }
    let n = w.ents.len() as u64;
    if ok && n < min_nodes_for_height(height) {
        cc.violation(
            format!("C07/{}/height-above-avl-bound", what),
            format!("height {} with {} nodes", height, n),
        );
        ok = false;
    }
    if ok {
        Some(Rendered { key: w.key, shape: w.shape, height })
    } else {
        None
    }
}

const READBACK_BUMP: u32 = 1_000_000;

fn avl_find(real: &IntervalTree<i64, u32>, qa: i64, qb: i64) -> Result<Vec<Ent>, String> {
    guard(|| {
        let mut got: Vec<Ent> = real
            .find(qa..qb)
            .map(|e| (e.interval().start, e.interval().end, *e.data()))
            .collect();
        got.sort();
        got
    })
}

/// collects what the mutable iterator yields and adds `bump` to every payload it hands out
fn avl_find_mut_bump(real: &mut IntervalTree<i64, u32>, qa: i64, qb: i64, bump: u32) -> Result<Vec<Ent>, String> {
    guard(|| {
        let mut got: Vec<Ent> = vec![];
        for mut e in real.find_mut(qa..qb) {
            let (a, b) = (e.interval().start, e.interval().end);
            let d = e.data();
            got.push((a, b, *d));
            *d = d.wrapping_add(bump);
        }
        got.sort();
        got
    })
}

/// query clause for one tree: `find` and `find_mut` against the naive filter for every query of
/// the list.  find_mut runs on one clone of the tree: every payload it hands out is increased
/// through the entry, read back through `find` on the same query, and decreased again through a
/// second find_mut pass; at the end the clone must equal the original in every field.
fn avl_queries(real: &IntervalTree<i64, u32>, model_sorted: &[Ent], queries: &[(i64, i64)], cc: &mut CaseCtx) -> bool {
    let mut c = real.clone();
    for &(qa, qb) in queries {
        let want = expected(model_sorted, qa, qb);
        match avl_find(real, qa, qb) {
            Err(msg) => {
                cc.violation("C07/avl/find/panic", format!("find({}..{}): {}", qa, qb, msg));
                return false;
            }
            Ok(got) => {
                if got != want {
                    cc.violation(
                        format!("C07/avl/find/{}", symptom(&got, &want)),
                        format!("find({}..{}) returned {:?}, overlapping entries are {:?}", qa, qb, got, want),
                    );
                    return false;
                }
            }
        }
        match avl_find_mut_bump(&mut c, qa, qb, READBACK_BUMP) {
            Err(msg) => {
                cc.violation("C07/avl/find_mut/panic", format!("find_mut({}..{}): {}", qa, qb, msg));
                return false;
            }
            Ok(got) => {
                if got != want {
                    cc.violation(
                        format!("C07/avl/find_mut/{}", symptom(&got, &want)),
                        format!("find_mut({}..{}) returned {:?}, overlapping entries are {:?}", qa, qb, got, want),
                    );
                    return false;
                }
            }
        }
        // the payloads written through the entries are what a shared query now sees
        match avl_find(&c, qa, qb) {
            Err(msg) => {
                cc.violation("C07/avl/find/panic", format!("find({}..{}) after find_mut: {}", qa, qb, msg));
                return false;
            }
            Ok(seen) => {
                let bumped: Vec<Ent> = want.iter().map(|&(a, b, d)| (a, b, d + READBACK_BUMP)).collect();
                if seen != bumped {
                    cc.violation(
                        "C07/avl/find_mut/write-not-visible",
                        format!("after adding {} through find_mut({}..{}), find on the same range returns {:?}", READBACK_BUMP, qa, qb, seen),
                    );
                    return false;
                }
            }
        }
        if let Err(msg) = avl_find_mut_bump(&mut c, qa, qb, READBACK_BUMP.wrapping_neg()) {
            cc.violation("C07/avl/find_mut/panic", format!("second find_mut({}..{}): {}", qa, qb, msg));
            return false;
        }
    }
    if c != *real {
        cc.violation(
            "C07/avl/find_mut/tree-changed",
            "adding and subtracting the same amount through find_mut on every query did not restore the tree".to_string(),
        );
        return false;
    }
    true
}

// --------------------------------------------------------------------------- operations (all K2)

#[derive(Clone, Debug, PartialEq, Serialize, Deserialize)]
enum Op {
    /// insert(a..b, payload(a,b))   (i8 keeps the per-state history small)
    Ins(i8, i8),
    /// `for mut e in find_mut(a..b) { *e.data() += 100 }`
    Bump(i8, i8),
    /// ArrayBackedIntervalTree::index
    Index,
    /// AnnotMap::insert_loc(location #l on reference #r)
    InsLoc(u8, u8),
    /// AnnotMap::insert_at(payload, location #l on reference #r)
    InsAt(u8, u8),
}

fn payload(a: i64, b: i64) -> u32 {
    (a * 16 + b) as u32
}

fn op_json(o: &Op) -> Value {
    serde_json::to_value(o).unwrap()
}

// --------------------------------------------------------------------------------- AVL tree, K2

#[derive(Clone)]
struct AState {
    real: IntervalTree<i64, u32>,
    /// sorted multiset
    model: Vec<Ent>,
    key: String,
    shape: String,
}

fn avl_empty() -> AState {
    AState {
        real: IntervalTree::new(),
        model: vec![],
        key: ".".into(),
        shape: ".".into(),
    }
}

/// true iff `new` is `old` with one null link replaced by the leaf (a,b,d): no rotation happened
fn only_leaf_added(old: &str, new: &str, a: i64, b: i64, d: u32) -> bool {
    let leaf = format!("({},{},{}..)", a, b, d);
    if new.len() + 1 != old.len() + leaf.len() {
        return false;
    }
    let (ob, nb) = (old.as_bytes(), new.as_bytes());
    let mut p = 0;
    while p < ob.len() && p < nb.len() && ob[p] == nb[p] {
        p += 1;
    }
    p < ob.len() && ob[p] == b'.' && new[p..].starts_with(&leaf) && old[p + 1..] == new[p + leaf.len()..]
}

/// apply without checking (used to build the initial states of a shard); None if the subject panics
fn avl_apply(s: &AState, op: &Op) -> Result<AState, String> {
    let mut t = s.clone();
    match *op {
        Op::Ins(a, b) => {
            let (a, b) = (a as i64, b as i64);
            let d = payload(a, b);
            guard(|| t.real.insert(a..b, d))?;
            t.model.push((a, b, d));
            t.model.sort();
        }
        Op::Bump(qa, qb) => {
            let (qa, qb) = (qa as i64, qb as i64);
            avl_find_mut_bump(&mut t.real, qa, qb, 100)?;
            for e in t.model.iter_mut() {
                if overlaps(e.0, e.1, qa, qb) {
                    e.2 += 100;
                }
            }
            t.model.sort();
        }
        _ => return Err("operation not applicable to the AVL tree".into()),
    }
    let (w, _) = render_tree(&t.real);
    t.key = w.key;
    t.shape = w.shape;
    Ok(t)
}

struct AvlFam {
    name: &'static str,
    ops: Vec<Op>,
    queries: Vec<(i64, i64)>,
    depth: usize,
    prefix_len: usize,
    nunits: usize,
}

fn domain_intervals(lo: i64, hi: i64) -> Vec<(i64, i64)> {
    let mut v = vec![];
    for a in lo..hi {
        for b in a + 1..=hi {
            v.push((a, b));
        }
    }
    v
}

/// every positive-width query inside [lo,hi] plus queries touching / leaving the occupied range
fn domain_queries(lo: i64, hi: i64) -> Vec<(i64, i64)> {
    let mut q = domain_intervals(lo, hi);
    q.extend([(lo - 1, lo), (hi, hi + 1), (lo - 1, hi + 1), (lo - 1, lo + 1), (hi - 1, hi + 1), (lo - 3, lo - 1)]);
    q
}

const AVL_FAMS: [&str; 4] = ["avl4", "avl3", "avlw", "avlmix"];

fn avl_fam(name: &str, tier: Tier) -> AvlFam {
    match name {
        // all 10 intervals inside [0,4]
        "avl4" => AvlFam {
            name: "avl4",
            ops: domain_intervals(0, 4).into_iter().map(|(a, b)| Op::Ins(a as i8, b as i8)).collect(),
            queries: domain_queries(0, 4),
            depth: tier.pick(7, 8),
            prefix_len: 2,
            nunits: 16,
        },
        // all 6 intervals inside [0,3], deeper (many ties: only three distinct starts)
        "avl3" => AvlFam {
            name: "avl3",
            ops: domain_intervals(0, 3).into_iter().map(|(a, b)| Op::Ins(a as i8, b as i8)).collect(),
            queries: domain_queries(0, 3),
            depth: tier.pick(9, 10),
            prefix_len: tier.pick(1, 2),
            nunits: tier.pick(6, 12),
        },
        // eight distinct starts (every rotation pattern of a plain AVL tree on <= 8/9 keys) with
        // unit widths plus three long members that make the max augmentation matter
        "avlw" => {
            let mut ops: Vec<Op> = (0..8i8).map(|i| Op::Ins(i, i + 1)).collect();
            ops.extend([Op::Ins(0, 8), Op::Ins(3, 6), Op::Ins(5, 9)]);
            let mut queries: Vec<(i64, i64)> = (-1..10).map(|q| (q, q + 1)).collect();
            queries.extend([(-1, 10), (2, 4), (6, 8), (8, 9)]);
            AvlFam {
                name: "avlw",
                ops,
                queries,
                depth: tier.pick(7, 8),
                prefix_len: 1,
                nunits: 11,
            }
        }
        // inserts interleaved with payload writes through find_mut
        _ => {
            let mut ops: Vec<Op> = domain_intervals(0, 3).into_iter().map(|(a, b)| Op::Ins(a as i8, b as i8)).collect();
            ops.extend([Op::Bump(0, 1), Op::Bump(1, 3), Op::Bump(2, 3)]);
            AvlFam {
                name: "avlmix",
                ops,
                queries: domain_queries(0, 3),
                depth: tier.pick(6, 8),
                prefix_len: 1,
                nunits: 3,
            }
        }
    }
}

fn avl_step(s: &AState, op: &Op, fam: &AvlFam, cc: &mut CaseCtx) -> Option<AState> {
    let mut t = AState {
        real: s.real.clone(),
        model: s.model.clone(),
        key: String::new(),
        shape: String::new(),
    };
    match *op {
        Op::Ins(a, b) => {
            let (a, b) = (a as i64, b as i64);
            let d = payload(a, b);
            if let Err(msg) = guard(|| t.real.insert(a..b, d)) {
                cc.violation("C07/avl/insert/panic", format!("insert({}..{}): {}", a, b, msg));
                cc.outcome(&"panic");
                return None;
            }
            t.model.push((a, b, d));
            t.model.sort();
        }
        Op::Bump(qa, qb) => {
            let (qa, qb) = (qa as i64, qb as i64);
            let want = expected(&s.model, qa, qb);
            match avl_find_mut_bump(&mut t.real, qa, qb, 100) {
                Err(msg) => {
                    cc.violation("C07/avl/find_mut/panic", format!("find_mut({}..{}): {}", qa, qb, msg));
                    cc.outcome(&"panic");
                    return None;
                }
                Ok(got) => {
                    if got != want {
                        cc.violation(
                            format!("C07/avl/find_mut/{}", symptom(&got, &want)),
                            format!("find_mut({}..{}) returned {:?}, overlapping entries are {:?}", qa, qb, got, want),
                        );
                    }
                    cc.set_nontrivial(!want.is_empty() && want.len() < s.model.len());
                }
            }
            for e in t.model.iter_mut() {
                if overlaps(e.0, e.1, qa, qb) {
                    e.2 += 100;
                }
            }
            t.model.sort();
        }
        _ => return None,
    }
    let r = avl_structure(render_tree(&t.real), &t.model, "avl", cc);
    let qok = avl_queries(&t.real, &t.model, &fam.queries, cc);
    match r {
        Some(r) => {
            if let Op::Ins(a, b) = *op {
                let (a, b) = (a as i64, b as i64);
                cc.set_nontrivial(!only_leaf_added(&s.shape, &r.shape, a, b, payload(a, b)));
            }
            cc.outcome(&r.key);
            if !qok || cc.has_violation() {
                return None;
            }
            t.key = r.key;
            t.shape = r.shape;
            Some(t)
        }
        None => {
            cc.outcome(&"structure");
            None
        }
    }
}

fn avl_key(s: &AState) -> String {
    // the rendering of every field of the real tree, then the model
    let mut k = s.key.clone();
    k.push('|');
    for e in &s.model {
        let _ = write!(k, "{},{},{};", e.0, e.1, e.2);
    }
    k
}

/// the shard's share of the length-`prefix_len` histories, as initial states
fn avl_inits(fam: &AvlFam, shard: usize) -> Vec<(AState, Value)> {
    let mut inits = vec![];
    let mut idx = 0usize;
    let radices = vec![fam.ops.len(); fam.prefix_len];
    gen::odometer(&radices, |digits| {
        let mine = idx % fam.nunits == shard;
        idx += 1;
        if !mine {
            return;
        }
        let prefix: Vec<Op> = digits.iter().map(|&d| fam.ops[d].clone()).collect();
        let mut s = avl_empty();
        for op in &prefix {
            match avl_apply(&s, op) {
                Ok(t) => s = t,
                Err(_) => return, // reported by the shallow unit, which checks every prefix
            }
        }
        let d = json!({"family": fam.name, "prefix": prefix.iter().map(op_json).collect::<Vec<_>>()});
        inits.push((s, d));
    });
    inits
}

fn avl_bfs_unit(fam_name: &str, shard: usize, tier: Tier, ctx: &mut Ctx) {
    let fam = avl_fam(fam_name, tier);
    let inits = avl_inits(&fam, shard);
    bfs::explore(
        ctx,
        inits,
        fam.depth - fam.prefix_len,
        |_s| fam.ops.clone(),
        |s, op, cc| avl_step(s, op, &fam, cc),
        avl_key,
        op_json,
        json!({"depth": fam.depth}),
    );
}

/// the histories shorter than or equal to the prefix length of every AVL family, from the empty tree
fn avl_shallow_unit(tier: Tier, ctx: &mut Ctx) {
    for name in AVL_FAMS {
        let fam = avl_fam(name, tier);
        // the empty tree itself: every query answers nothing
        ctx.case(
            || json!({"kind": "history", "init": {"family": fam.name, "prefix": []}, "ops": []}),
            |cc| {
                let s = avl_empty();
                avl_structure(render_tree(&s.real), &s.model, "avl", cc);
                avl_queries(&s.real, &s.model, &fam.queries, cc);
                cc.outcome(&"empty");
            },
        );
        bfs::explore(
            ctx,
            vec![(avl_empty(), json!({"family": fam.name, "prefix": []}))],
            fam.prefix_len,
            |_s| fam.ops.clone(),
            |s, op, cc| avl_step(s, op, &fam, cc),
            avl_key,
            op_json,
            json!({"depth": fam.prefix_len, "note": "prefixes of the sharded search"}),
        );
    }
}

/// mirrors what the unit did: the shard prefix is applied without checks (every prefix is a
/// checked history of the shallow unit), the operations after it are stepped with all checks
fn avl_replay(init: &Value, ops: &[Op], tier: Tier, cc: &mut CaseCtx) {
    let fam = avl_fam(init["family"].as_str().unwrap_or("avl4"), tier);
    let prefix: Vec<Op> = serde_json::from_value(init["prefix"].clone()).unwrap_or_default();
    let mut s = avl_empty();
    if prefix.is_empty() && ops.is_empty() {
        avl_structure(render_tree(&s.real), &s.model, "avl", cc);
        avl_queries(&s.real, &s.model, &fam.queries, cc);
        return;
    }
    for op in &prefix {
        match avl_apply(&s, op) {
            Ok(t) => s = t,
            Err(msg) => {
                cc.violation("C07/avl/insert/panic", format!("{:?} in the prefix: {}", op, msg));
                return;
            }
        }
    }
    for op in ops {
        match avl_step(&s, op, &fam, cc) {
            Some(t) => s = t,
            None => break,
        }
    }
}

// -------------------------------------------------------------------------- AVL tree, K1 families

const ORDERS: [&str; 7] = ["asc", "desc", "zigzag", "inside-out", "equal", "pairs", "stride"];
const WIDTHS: [&str; 5] = ["w1", "w5", "nested", "alt", "grow"];

/// start of the i-th inserted interval; every order is prefix-closed (does not depend on n)
fn family_start(order: &str, i: usize) -> i64 {
    let i = i as i64;
    match order {
        "asc" => i,
        "desc" => 1000 - i,
        "zigzag" => {
            if i % 2 == 0 {
                i / 2
            } else {
                1000 - i / 2
            }
        }
        "inside-out" => {
            if i % 2 == 0 {
                500 + i / 2
            } else {
                500 - (i + 1) / 2
            }
        }
        "equal" => 7,
        "pairs" => i / 2,
        _ => (i * 37) % 421, // stride permutation modulo a prime > 400
    }
}

fn family_end(width: &str, start: i64, i: usize) -> i64 {
    match width {
        "w1" => start + 1,
        "w5" => start + 5,
        "nested" => 3000 - start, // larger start => smaller end
        "alt" => start + if i % 2 == 0 { 1 } else { 50 },
        _ => start + 1 + (i as i64 % 7) * 3,
    }
}

fn family_entries(order: &str, width: &str, n: usize) -> Vec<Ent> {
    (0..n)
        .map(|i| {
            let s = family_start(order, i);
            (s, family_end(width, s, i), i as u32)
        })
        .collect()
}

fn avl_family_check(order: &str, width: &str, n: usize, cc: &mut CaseCtx) {
    let ents = family_entries(order, width, n);
    let mut tree: IntervalTree<i64, u32> = IntervalTree::new();
    for &(a, b, d) in &ents {
        if let Err(msg) = guard(|| tree.insert(a..b, d)) {
            cc.violation("C07/avl/insert/panic", format!("insert({}..{}): {}", a, b, msg));
            return;
        }
    }
    let mut model = ents.clone();
    model.sort();
    cc.set_nontrivial(n >= 3);
    match avl_structure(render_tree(&tree), &model, "avl", cc) {
        Some(r) => cc.outcome(&(n, r.height, crate::ctx::hash_of(&r.shape))),
        None => {
            cc.outcome(&"structure");
            return;
        }
    }
    // stabbing queries at every coordinate where the answer can change, widths 1 and 2
    let mut pts: Vec<i64> = vec![];
    for e in &model {
        pts.extend([e.0 - 1, e.0, e.1 - 1, e.1]);
    }
    pts.sort();
    pts.dedup();
    let mut c = tree.clone();
    for &q in &pts {
        for wd in [1i64, 2] {
            let want = expected(&model, q, q + wd);
            match avl_find(&tree, q, q + wd) {
                Err(msg) => {
                    cc.violation("C07/avl/find/panic", format!("find({}..{}): {}", q, q + wd, msg));
                    return;
                }
                Ok(got) => {
                    if got != want {
                        cc.violation(
                            format!("C07/avl/find/{}", symptom(&got, &want)),
                            format!("n={} find({}..{}) returned {:?}, overlapping entries are {:?}", n, q, q + wd, got, want),
                        );
                        return;
                    }
                }
            }
            if wd == 1 {
                match avl_find_mut_bump(&mut c, q, q + wd, 0) {
                    Err(msg) => {
                        cc.violation("C07/avl/find_mut/panic", format!("find_mut({}..{}): {}", q, q + wd, msg));
                        return;
                    }
                    Ok(got) => {
                        if got != want {
                            cc.violation(
                                format!("C07/avl/find_mut/{}", symptom(&got, &want)),
                                format!("n={} find_mut({}..{}) returned {:?}, overlapping entries are {:?}", n, q, q + wd, got, want),
                            );
                            return;
                        }
                    }
                }
            }
        }
    }
}

const FAMILY_SHARDS: usize = 3;

fn avl_family_unit(shard: usize, tier: Tier, ctx: &mut Ctx) {
    let nmax = tier.pick(200, 400);
    let mut idx = 0;
    for order in ORDERS {
        for width in WIDTHS {
            idx += 1;
            if idx % FAMILY_SHARDS != shard {
                continue;
            }
            for n in 1..=nmax {
                ctx.case(
                    || json!({"kind": "avl-family", "order": order, "width": width, "n": n}),
                    |cc| avl_family_check(order, width, n, cc),
                );
            }
        }
    }
}

// ---------------------------------------------------------------------- array-backed tree, common

type ATree = ArrayBackedIntervalTree<i64, u32>;

fn abt_find(t: &ATree, qa: i64, qb: i64) -> Result<Vec<Ent>, String> {
    guard(|| {
        let mut got: Vec<Ent> = t
            .find(qa..qb)
            .iter()
            .map(|e| (e.interval().start, e.interval().end, *e.data()))
            .collect();
        got.sort();
        got
    })
}

/// find_into with a buffer that still holds the answer of another query
fn abt_find_into_reused(t: &ATree, qa: i64, qb: i64, other: (i64, i64)) -> Result<Vec<Ent>, String> {
    guard(|| {
        let mut buf = Vec::new();
        t.find_into(other.0..other.1, &mut buf);
        t.find_into(qa..qb, &mut buf);
        let mut got: Vec<Ent> = buf
            .iter()
            .map(|e| (e.interval().start, e.interval().end, *e.data()))
            .collect();
        got.sort();
        got
    })
}

/// indexed tree: every query must equal the filter.  `class` is the key segment.
fn abt_check_queries(t: &ATree, model_sorted: &[Ent], queries: &[(i64, i64)], class: &str, into_too: bool, cc: &mut CaseCtx) -> bool {
    for &(qa, qb) in queries {
        let want = expected(model_sorted, qa, qb);
        match abt_find(t, qa, qb) {
            Err(msg) => {
                cc.violation(format!("C07/array/{}/find-panic", class), format!("find({}..{}) on an indexed tree: {}", qa, qb, msg));
                return false;
            }
            Ok(got) => {
                if got != want {
                    cc.violation(
                        format!("C07/array/{}/find-{}", class, symptom(&got, &want)),
                        format!("{} entries, find({}..{}) returned {:?}, overlapping entries are {:?}", model_sorted.len(), qa, qb, got, want),
                    );
                    return false;
                }
            }
        }
        if into_too {
            match abt_find_into_reused(t, qa, qb, queries[0]) {
                Err(msg) => {
                    cc.violation(format!("C07/array/{}/find-panic", class), format!("find_into({}..{}): {}", qa, qb, msg));
                    return false;
                }
                Ok(got) => {
                    if got != want {
                        cc.violation(
                            format!("C07/array/{}/find_into-{}", class, symptom(&got, &want)),
                            format!("find_into({}..{}) with a used buffer returned {:?}, overlapping entries are {:?}", qa, qb, got, want),
                        );
                        return false;
                    }
                }
            }
        }
    }
    true
}

/// un-indexed tree: queries must be refused (any panic counts as refusal)
fn abt_check_refused(t: &ATree, queries: &[(i64, i64)], class: &str, cc: &mut CaseCtx) -> bool {
    for &(qa, qb) in queries {
        if let Ok(got) = abt_find(t, qa, qb) {
            cc.violation(
                format!("C07/array/{}/not-refused", class),
                format!("find({}..{}) on a tree with un-indexed inserts answered {:?}", qa, qb, got),
            );
            return false;
        }
        if let Ok(got) = abt_find_into_reused(t, qa, qb, (qa, qb)) {
            cc.violation(
                format!("C07/array/{}/not-refused", class),
                format!("find_into({}..{}) on a tree with un-indexed inserts answered {:?}", qa, qb, got),
            );
            return false;
        }
    }
    true
}

/// every field of the real object, compactly; also returns the stored entries
fn abt_render(t: &ATree) -> Result<(String, Vec<Ent>), String> {
    let v = serde_json::to_value(t).map_err(|e| e.to_string())?;
    let mut key = String::new();
    let mut ents = vec![];
    let arr = v.get("entries").and_then(|e| e.as_array()).ok_or("entries")?;
    for e in arr {
        let s = e["interval"]["start"].as_i64().ok_or("start")?;
        let en = e["interval"]["end"].as_i64().ok_or("end")?;
        let d = e["data"].as_u64().ok_or("data")? as u32;
        let m = e["max"].as_i64().ok_or("max")?;
        let _ = write!(key, "{},{},{},{};", s, en, d, m);
        ents.push((s, en, d));
    }
    let _ = write!(
        key,
        "L{}I{}",
        v.get("max_level").and_then(|x| x.as_u64()).ok_or("max_level")?,
        v.get("indexed").and_then(|x| x.as_bool()).ok_or("indexed")?
    );
    Ok((key, ents))
}

// -------------------------------------------------------------------------- array-backed tree, K2

#[derive(Clone)]
struct BState {
    real: ATree,
    model: Vec<Ent>, // sorted multiset
    indexed: bool,
    ever_indexed: bool,
    key: String,
}

fn abt_empty() -> BState {
    let real = ATree::new();
    let key = abt_render(&real).map(|r| r.0).unwrap_or_default();
    BState {
        real,
        model: vec![],
        indexed: false,
        ever_indexed: false,
        key,
    }
}

const ABT_K2_SHARDS: usize = 3;

fn abt_k2_ops() -> Vec<Op> {
    let mut ops: Vec<Op> = domain_intervals(0, 4).into_iter().map(|(a, b)| Op::Ins(a as i8, b as i8)).collect();
    ops.push(Op::Index);
    ops
}

fn abt_state_check(t: &mut BState, cc: &mut CaseCtx) -> bool {
    match abt_render(&t.real) {
        Err(what) => {
            cc.violation("C07/array/serde-shape", format!("rendering not understood at {}", what));
            return false;
        }
        Ok((key, mut ents)) => {
            ents.sort();
            if ents != t.model {
                cc.violation(
                    "C07/array/contents-differ",
                    format!("tree holds {:?}, inserted {:?}", ents, t.model),
                );
                return false;
            }
            t.key = key;
        }
    }
    let queries = domain_queries(0, 4);
    if t.indexed {
        abt_check_queries(&t.real, &t.model, &queries, "small", true, cc)
    } else {
        let class = if t.ever_indexed { "insert-after-index" } else { "never-indexed" };
        abt_check_refused(&t.real, &queries[..3], class, cc)
    }
}

fn abt_step(s: &BState, op: &Op, cc: &mut CaseCtx) -> Option<BState> {
    let mut t = s.clone();
    match *op {
        Op::Ins(a, b) => {
            let (a, b) = (a as i64, b as i64);
            let d = payload(a, b);
            if let Err(msg) = guard(|| t.real.insert(a..b, d)) {
                cc.violation("C07/array/insert/panic", format!("insert({}..{}): {}", a, b, msg));
                return None;
            }
            t.model.push((a, b, d));
            t.model.sort();
            t.indexed = false;
            cc.set_nontrivial(s.ever_indexed);
        }
        Op::Index => {
            if let Err(msg) = guard(|| t.real.index()) {
                cc.violation("C07/array/index/panic", format!("index() with {} entries: {}", t.model.len(), msg));
                return None;
            }
            cc.set_nontrivial(s.ever_indexed && !s.indexed);
            t.indexed = true;
            t.ever_indexed = true;
        }
        _ => return None,
    }
    let ok = abt_state_check(&mut t, cc);
    cc.outcome(&(&t.key, t.indexed));
    if ok {
        Some(t)
    } else {
        None
    }
}

fn abt_key(s: &BState) -> String {
    let mut k = s.key.clone();
    let _ = write!(k, "|{}{}|", s.indexed as u8, s.ever_indexed as u8);
    for e in &s.model {
        let _ = write!(k, "{},{},{};", e.0, e.1, e.2);
    }
    k
}

fn abt_k2_unit(shard: usize, tier: Tier, ctx: &mut Ctx) {
    let depth = tier.pick(5, 6);
    let ops = abt_k2_ops();
    let mut inits = vec![];
    for (i, op) in ops.iter().enumerate() {
        if i % ABT_K2_SHARDS != shard {
            continue;
        }
        // the one-operation histories are cases of their own
        let mut first: Option<BState> = None;
        ctx.case(
            || json!({"kind": "history", "init": {"family": "array", "prefix": []}, "ops": [op_json(op)]}),
            |cc| {
                cc.add_transitions(1);
                first = abt_step(&abt_empty(), op, cc);
            },
        );
        if let Some(s) = first {
            inits.push((s, json!({"family": "array", "prefix": [op_json(op)]})));
        }
    }
    if shard == 0 {
        ctx.case(
            || json!({"kind": "history", "init": {"family": "array", "prefix": []}, "ops": []}),
            |cc| {
                let mut s = abt_empty();
                abt_state_check(&mut s, cc);
                cc.outcome(&"empty");
            },
        );
    }
    bfs::explore(
        ctx,
        inits,
        depth - 1,
        |_s| ops.clone(),
        abt_step,
        abt_key,
        op_json,
        json!({"depth": depth}),
    );
}

fn abt_replay(init: &Value, ops: &[Op], cc: &mut CaseCtx) {
    let prefix: Vec<Op> = serde_json::from_value(init["prefix"].clone()).unwrap_or_default();
    let mut s = abt_empty();
    if prefix.is_empty() && ops.is_empty() {
        abt_state_check(&mut s, cc);
        return;
    }
    for op in prefix.iter().chain(ops.iter()) {
        match abt_step(&s, op, cc) {
            Some(t) => s = t,
            None => break,
        }
    }
}

// ------------------------------------------------------------------ array-backed tree, staircases

const LONGS: [i64; 3] = [3, 7, 100];
const STAIR_SHARDS: usize = 8;

fn stair_entries(n: usize, longs: &[(usize, i64)]) -> Vec<Ent> {
    (0..n)
        .map(|i| {
            let a = 2 * i as i64;
            let mut b = a + 1;
            for &(p, l) in longs {
                if p == i {
                    b = a + 1 + l;
                }
            }
            (a, b, i as u32)
        })
        .collect()
}

fn stair_queries(n: usize) -> Vec<(i64, i64)> {
    let top = 2 * n as i64;
    let mut q = vec![];
    for s in -1..top + 3 {
        q.push((s, s + 1));
        q.push((s, s + 2));
    }
    q.extend([(top + 50, top + 51), (top + 101, top + 102), (-1, top + 200), (top / 2, top + 200)]);
    q
}

fn order_perm(order: &str, n: usize) -> Vec<usize> {
    match order {
        "rev" => (0..n).rev().collect(),
        "stride" => {
            // i -> i*s mod n for an s coprime to n
            let mut s = 7usize;
            while n > 0 && gcd(s, n) != 1 {
                s += 1;
            }
            (0..n).map(|i| (i * s) % n.max(1)).collect()
        }
        _ => (0..n).collect(),
    }
}

fn gcd(a: usize, b: usize) -> usize {
    if b == 0 {
        a
    } else {
        gcd(b, a % b)
    }
}

fn stair_check(n: usize, longs: &[(usize, i64)], order: &str, cc: &mut CaseCtx) {
    let ents = stair_entries(n, longs);
    let mut t = ATree::new();
    for i in order_perm(order, n) {
        let (a, b, d) = ents[i];
        t.insert(a..b, d);
    }
    cc.set_nontrivial(n >= 16 && !longs.is_empty());
    if let Err(msg) = guard(|| t.index()) {
        cc.violation("C07/array/index/panic", format!("index() with {} entries: {}", n, msg));
        return;
    }
    let mut model = ents;
    model.sort();
    let class = if n >= 16 { "n>=16" } else { "n<16" };
    abt_check_queries(&t, &model, &stair_queries(n), class, false, cc);
    cc.outcome(&(n, longs, abt_render(&t).map(|r| crate::ctx::hash_of(&r.0)).unwrap_or(0)));
}

/// a staircase far beyond the small bounds: 2^k entries straddle every level count of the
/// implicit tree up to 20 levels (traversal stacks, level shifts); few queries, linear oracle
fn huge_check(n: usize, order: &str, cc: &mut CaseCtx) {
    let longs = [(0usize, 2 * n as i64), (n / 2, 10i64)];
    let ents = stair_entries(n, &longs);
    let mut t = ATree::new();
    for i in order_perm(order, n) {
        let (a, b, d) = ents[i];
        t.insert(a..b, d);
    }
    cc.set_nontrivial(true);
    if let Err(msg) = guard(|| t.index()) {
        cc.violation("C07/array/index/panic", format!("index() with {} entries: {}", n, msg));
        return;
    }
    let mut model = ents;
    model.sort();
    let top = 2 * n as i64;
    let queries = [(0, 1), (1, 2), (3, 4), (top / 2, top / 2 + 1), (top - 2, top - 1), (top - 1, top), (top + 5, top + 6), (-5, -4), (top / 4, top / 4 + 7), (0, top + 1)];
    abt_check_queries(&t, &model, &queries, "huge", true, cc);
    cc.outcome(&(n, order));
}

fn huge_sizes(tier: Tier) -> Vec<usize> {
    tier.pick(vec![(1 << 16) - 1, 1 << 16, (1 << 19) + 3], vec![(1 << 16) - 1, 1 << 16, (1 << 17) + 1, (1 << 19) - 1, 1 << 19, (1 << 19) + 3, (1 << 20) + 1])
}

fn huge_unit(tier: Tier, ctx: &mut Ctx) {
    for n in huge_sizes(tier) {
        for order in ["asc", "stride"] {
            ctx.case(|| json!({"kind": "huge-stair", "n": n, "order": order}), |cc| huge_check(n, order, cc));
        }
    }
}

/// (length of the first, length of the second long member)
fn pair_lengths(tier: Tier) -> &'static [(i64, i64)] {
    match tier {
        Tier::Quick => &[(3, 7), (7, 100), (100, 3), (100, 100)],
        Tier::Thorough => &[(3, 3), (3, 7), (3, 100), (7, 3), (7, 7), (7, 100), (100, 3), (100, 7), (100, 100)],
    }
}

fn stair_unit(shard: usize, tier: Tier, ctx: &mut Ctx) {
    let nmax = tier.pick(64, 130);
    let mut idx = 0usize;
    let mut run = |ctx: &mut Ctx, n: usize, longs: Vec<(usize, i64)>, order: &'static str| {
        let mine = idx % STAIR_SHARDS == shard;
        idx += 1;
        if !mine {
            return;
        }
        ctx.case(
            || json!({"kind": "stair", "n": n, "long": longs, "order": order}),
            |cc| stair_check(n, &longs, order, cc),
        );
    };
    // small n first (smallest witness first); the round-robin split balances the shards anyway
    for n in 0..=nmax {
        for order in ["asc", "rev", "stride"] {
            if n < 2 && order != "asc" {
                continue;
            }
            run(ctx, n, vec![], order);
            for p in 0..n {
                for l in LONGS {
                    run(ctx, n, vec![(p, l)], order);
                }
            }
        }
        for p1 in 0..n {
            for p2 in p1 + 1..n {
                for &(l1, l2) in pair_lengths(tier) {
                    run(ctx, n, vec![(p1, l1), (p2, l2)], "asc");
                }
            }
        }
    }
}

// -------------------------------------------------------- array-backed tree, short/long labelings

const LABEL_SHARDS: usize = 2;
const LABEL_LONG: [i64; 2] = [5, 40];

fn label_check(n: usize, mask: u32, long: i64, cc: &mut CaseCtx) {
    let ents: Vec<Ent> = (0..n)
        .map(|i| {
            let a = 2 * i as i64;
            (a, if mask >> i & 1 == 1 { a + 1 + long } else { a + 1 }, i as u32)
        })
        .collect();
    let mut t = ATree::new();
    for &(a, b, d) in &ents {
        t.insert(a..b, d);
    }
    cc.set_nontrivial(mask != 0);
    if let Err(msg) = guard(|| t.index()) {
        cc.violation("C07/array/index/panic", format!("index() with {} entries: {}", n, msg));
        return;
    }
    let top = 2 * n as i64;
    let mut queries = vec![];
    for s in -1..top + 2 {
        queries.push((s, s + 1));
    }
    queries.extend([(top + long - 1, top + long), (-1, top + 100)]);
    abt_check_queries(&t, &ents, &queries, "n>=16", false, cc);
    cc.outcome(&(n, mask, long));
}

fn label_sizes(tier: Tier) -> Vec<usize> {
    match tier {
        Tier::Quick => vec![16, 17],
        Tier::Thorough => vec![16, 17, 18, 19, 20],
    }
}

fn label_unit(shard: usize, tier: Tier, ctx: &mut Ctx) {
    for n in label_sizes(tier) {
        for long in LABEL_LONG {
            for mask in 0u32..(1u32 << n) {
                if mask as usize % LABEL_SHARDS != shard {
                    continue;
                }
                ctx.case(
                    || json!({"kind": "labeling", "n": n, "mask": mask, "long": long}),
                    |cc| label_check(n, mask, long, cc),
                );
            }
        }
    }
}

// --------------------------------------------- array-backed tree, insert after index and re-index

/// first batch: staircase of n1 (one member of width 8 in the middle), built by `from_iter`
/// (variant 1) or insert+index (variant 0); second batch: n2 entries on odd starts, every third
/// one long; a third batch of one entry that sorts first.
fn reindex_check(n1: usize, n2: usize, variant: u64, cc: &mut CaseCtx) {
    let mut model: Vec<Ent> = stair_entries(n1, &[(n1 / 2, 7)]);
    cc.outcome(&(n1, n2, variant));
    let mut t: ATree = if variant == 1 {
        match guard(|| ATree::from_iter(model.iter().map(|&(a, b, d)| (a..b, d)))) {
            Ok(t) => t,
            Err(msg) => {
                cc.violation("C07/array/index/panic", format!("from_iter with {} entries: {}", n1, msg));
                return;
            }
        }
    } else {
        let mut t = ATree::new();
        for &(a, b, d) in model.iter().rev() {
            t.insert(a..b, d);
        }
        if n1 == 0 {
            // nothing inserted, never indexed: must refuse
            if !abt_check_refused(&t, &[(0, 1)], "never-indexed", cc) {
                return;
            }
        }
        if let Err(msg) = guard(|| t.index()) {
            cc.violation("C07/array/index/panic", format!("index() with {} entries: {}", n1, msg));
            return;
        }
        t
    };
    cc.set_nontrivial(n1 + n2 >= 16);
    let top = 2 * (n1 + n2) as i64 + 4;
    let mut queries: Vec<(i64, i64)> = (-2..top).map(|s| (s, s + 1)).collect();
    queries.extend([(-2, top + 100), (top / 2, top / 2 + 3)]);
    model.sort();
    if !abt_check_queries(&t, &model, &queries, "first-index", true, cc) {
        return;
    }
    // index() on an indexed tree changes nothing
    if let Err(msg) = guard(|| t.index()) {
        cc.violation("C07/array/index/panic", format!("second index() with {} entries: {}", n1, msg));
        return;
    }
    if !abt_check_queries(&t, &model, &queries[..queries.len().min(8)], "first-index", false, cc) {
        return;
    }
    for j in 0..n2 {
        let a = 2 * j as i64 + 1;
        let b = if j % 3 == 0 { a + 9 } else { a + 1 };
        t.insert(a..b, 1000 + j as u32);
        model.push((a, b, 1000 + j as u32));
        if j == 0 || j + 1 == n2 {
            if !abt_check_refused(&t, &[(a, a + 1)], "insert-after-index", cc) {
                return;
            }
        }
    }
    if let Err(msg) = guard(|| t.index()) {
        cc.violation("C07/array/index/panic", format!("re-index with {} entries: {}", model.len(), msg));
        return;
    }
    model.sort();
    if !abt_check_queries(&t, &model, &queries, "re-index", true, cc) {
        return;
    }
    t.insert(-2..top, 5000);
    model.push((-2, top, 5000));
    if !abt_check_refused(&t, &[(0, 1)], "insert-after-index", cc) {
        return;
    }
    if let Err(msg) = guard(|| t.index()) {
        cc.violation("C07/array/index/panic", format!("re-index with {} entries: {}", model.len(), msg));
        return;
    }
    model.sort();
    abt_check_queries(&t, &model, &queries, "re-index", false, cc);
    cc.outcome(&(n1, n2, abt_render(&t).map(|r| crate::ctx::hash_of(&r.0)).unwrap_or(0)));
}

fn reindex_unit(tier: Tier, ctx: &mut Ctx) {
    let nmax = tier.pick(28, 56);
    for n1 in 0..=nmax {
        for n2 in 1..=nmax {
            for variant in 0..2u64 {
                ctx.case(
                    || json!({"kind": "reindex", "n1": n1, "n2": n2, "variant": variant}),
                    |cc| reindex_check(n1, n2, variant, cc),
                );
            }
        }
    }
}

// ---------------------------------------------------------------------------------- AnnotMap, K2

/// payload type for `insert_loc`: a bio-types `Contig` plus a tag.  It renders (serde) as the tag
/// only, so the walker sees an `IntervalTree<isize, u32>`-shaped value.
#[derive(Clone, Debug, PartialEq, Eq)]
struct Tagged {
    contig: Contig<String, ReqStrand>,
    tag: u32,
}

impl Serialize for Tagged {
    fn serialize<S: serde::Serializer>(&self, s: S) -> Result<S::Ok, S::Error> {
        s.serialize_u32(self.tag)
    }
}

impl Loc for Tagged {
    type RefID = String;
    type Strand = ReqStrand;
    fn refid(&self) -> &String {
        self.contig.refid()
    }
    fn start(&self) -> isize {
        self.contig.start()
    }
    fn length(&self) -> usize {
        self.contig.length()
    }
    fn strand(&self) -> ReqStrand {
        self.contig.strand()
    }
    fn pos_into<T>(&self, pos: &Pos<String, T>) -> Option<Pos<(), T>>
    where
        T: Neg<Output = T> + Copy,
    {
        self.contig.pos_into(pos)
    }
    fn pos_outof<Q, T>(&self, pos: &Pos<Q, T>) -> Option<Pos<String, T>>
    where
        T: Neg<Output = T> + Copy,
    {
        self.contig.pos_outof(pos)
    }
    fn contig_intersection<T>(&self, other: &Contig<String, T>) -> Option<Self> {
        self.contig.contig_intersection(other).map(|c| Tagged { contig: c, tag: self.tag })
    }
}

const REFS: [&str; 2] = ["chr1", "chr2"];
const UNKNOWN_REF: &str = "chrU";
/// (start, length) of the four locations per reference; starts include a negative coordinate
const LOCS: [(i64, i64); 4] = [(-1, 2), (0, 2), (1, 2), (-1, 4)];

fn contig(r: &str, start: i64, len: i64, strand: ReqStrand) -> Contig<String, ReqStrand> {
    Contig::new(r.to_string(), start as isize, len as usize, strand)
}

/// tag encodes how (insert_loc = 0, insert_at = 1), reference and location
fn annot_tag(at: bool, r: u8, l: u8) -> u32 {
    (at as u32) * 100 + (r as u32) * 10 + l as u32
}

#[derive(Clone)]
struct MState {
    real: AnnotMap<String, Tagged>,
    /// per reference: sorted multiset
    model: [Vec<Ent>; 2],
    key: String,
}

fn annot_empty() -> MState {
    MState {
        real: AnnotMap::new(),
        model: [vec![], vec![]],
        key: String::new(),
    }
}

fn annot_ops() -> Vec<Op> {
    let mut ops = vec![];
    for r in 0..2u8 {
        for l in 0..4u8 {
            ops.push(Op::InsLoc(r, l));
            ops.push(Op::InsAt(r, l));
        }
    }
    ops
}

fn annot_find(real: &AnnotMap<String, Tagged>, r: &str, qa: i64, qb: i64, strand: ReqStrand) -> Result<(Vec<Ent>, bool), String> {
    guard(|| {
        let q = contig(r, qa, qb - qa, strand);
        let mut refid_ok = true;
        let mut got: Vec<Ent> = vec![];
        for e in real.find(&q) {
            if e.refid().as_str() != r {
                refid_ok = false;
            }
            got.push((e.interval().start as i64, e.interval().end as i64, e.data().tag));
        }
        got.sort();
        (got, refid_ok)
    })
}

/// `{"refid_itrees":{"<id>":<tree>,...}}` -> per reference id (sorted, so that HashMap order
/// cannot matter) the walk of its tree
fn render_annot(real: &AnnotMap<String, Tagged>) -> Result<Vec<(String, Walk, i64)>, String> {
    let buf = serde_json::to_vec(real).map_err(|e| e.to_string())?;
    let mut js = Js { b: &buf[..], i: 0 };
    js.eat(b'{')?;
    if js.key()? != b"refid_itrees" {
        return Err("unknown field".into());
    }
    js.eat(b'{')?;
    let mut out = vec![];
    if js.peek() == b'}' {
        js.i += 1;
    } else {
        loop {
            let id = String::from_utf8_lossy(js.key()?).to_string();
            let (w, h) = walk_tree(&mut js);
            if let Some(p) = w.problems.iter().find(|p| p.0 == "serde-shape") {
                return Err(p.1.clone());
            }
            out.push((id, w, h));
            if !js.more()? {
                break;
            }
        }
    }
    js.eat(b'}')?;
    out.sort_by(|a, b| a.0.cmp(&b.0));
    Ok(out)
}

fn annot_check(t: &mut MState, cc: &mut CaseCtx) -> bool {
    let trees = match render_annot(&t.real) {
        Ok(v) => v,
        Err(e) => {
            cc.violation("C07/annotmap/serde-shape", e);
            return false;
        }
    };
    let mut ok = true;
    let mut key = String::new();
    let mut present = [false; 2];
    for (id, w, h) in trees {
        // a tree for a reference nothing was inserted at is tolerated as long as it is empty
        let none: Vec<Ent> = vec![];
        let m = match REFS.iter().position(|r| *r == id) {
            Some(ri) => {
                present[ri] = true;
                &t.model[ri]
            }
            None => &none,
        };
        match avl_structure((w, h), m, "annotmap", cc) {
            Some(r) => {
                let _ = write!(key, "{}={};", id, r.key);
            }
            None => ok = false,
        }
    }
    for (ri, r) in REFS.iter().enumerate() {
        if !t.model[ri].is_empty() && !present[ri] {
            cc.violation(
                "C07/annotmap/contents-differ",
                format!("no tree for reference {} after {} insertions there", r, t.model[ri].len()),
            );
            ok = false;
        }
    }
    for (ri, r) in REFS.iter().chain([UNKNOWN_REF].iter()).enumerate() {
        for (qi, &(qa, qb)) in domain_queries(-1, 3).iter().enumerate() {
            let strand = if qi % 2 == 0 { ReqStrand::Forward } else { ReqStrand::Reverse };
            let want = if ri < 2 { expected(&t.model[ri], qa, qb) } else { vec![] };
            match annot_find(&t.real, r, qa, qb, strand) {
                Err(msg) => {
                    cc.violation("C07/annotmap/find/panic", format!("find({}:{}..{}): {}", r, qa, qb, msg));
                    ok = false;
                }
                Ok((got, refid_ok)) => {
                    if got != want {
                        let k = if ri == 2 {
                            "C07/annotmap/unknown-refid/non-empty".to_string()
                        } else {
                            format!("C07/annotmap/find/{}", symptom(&got, &want))
                        };
                        cc.violation(k, format!("find({}:{}..{}) returned {:?}, overlapping entries of that reference are {:?}", r, qa, qb, got, want));
                        ok = false;
                    } else if !refid_ok {
                        cc.violation("C07/annotmap/find/wrong-refid", format!("find({}:{}..{}) yielded an entry with another reference id", r, qa, qb));
                        ok = false;
                    }
                }
            }
        }
    }
    t.key = key;
    ok
}

fn annot_step(s: &MState, op: &Op, cc: &mut CaseCtx) -> Option<MState> {
    let mut t = s.clone();
    let (at, r, l) = match *op {
        Op::InsLoc(r, l) => (false, r, l),
        Op::InsAt(r, l) => (true, r, l),
        _ => return None,
    };
    let (start, len) = LOCS[l as usize];
    let tag = annot_tag(at, r, l);
    let loc = contig(REFS[r as usize], start, len, if l % 2 == 0 { ReqStrand::Forward } else { ReqStrand::Reverse });
    let res = if at {
        // the payload's own location is somewhere else entirely (other reference, far away)
        let data = Tagged { contig: contig(REFS[1 - r as usize], 50 + l as i64, 3, ReqStrand::Forward), tag };
        guard(|| t.real.insert_at(data, &loc))
    } else {
        let data = Tagged { contig: loc.clone(), tag };
        guard(|| t.real.insert_loc(data))
    };
    if let Err(msg) = res {
        cc.violation("C07/annotmap/insert/panic", format!("{:?}: {}", op, msg));
        return None;
    }
    let m = &mut t.model[r as usize];
    m.push((start, start + len, tag));
    m.sort();
    cc.set_nontrivial(!s.model[0].is_empty() && !s.model[1].is_empty() || s.model[r as usize].len() >= 2);
    let ok = annot_check(&mut t, cc);
    cc.outcome(&t.key);
    if ok {
        Some(t)
    } else {
        None
    }
}

fn annot_key(s: &MState) -> String {
    let mut k = s.key.clone();
    for m in &s.model {
        k.push('|');
        for e in m {
            let _ = write!(k, "{},{},{};", e.0, e.1, e.2);
        }
    }
    k
}

const ANNOT_SHARDS: usize = 2;

fn annot_unit(shard: usize, tier: Tier, ctx: &mut Ctx) {
    let depth = tier.pick(4, 5);
    let ops = annot_ops();
    let mut inits = vec![];
    for (i, op) in ops.iter().enumerate() {
        if i % ANNOT_SHARDS != shard {
            continue;
        }
        let mut first: Option<MState> = None;
        ctx.case(
            || json!({"kind": "history", "init": {"family": "annotmap", "prefix": []}, "ops": [op_json(op)]}),
            |cc| {
                cc.add_transitions(1);
                first = annot_step(&annot_empty(), op, cc);
            },
        );
        if let Some(s) = first {
            inits.push((s, json!({"family": "annotmap", "prefix": [op_json(op)]})));
        }
    }
    if shard == 0 {
        ctx.case(
            || json!({"kind": "history", "init": {"family": "annotmap", "prefix": []}, "ops": []}),
            |cc| {
                let mut s = annot_empty();
                annot_check(&mut s, cc);
                cc.outcome(&"empty");
            },
        );
    }
    bfs::explore(
        ctx,
        inits,
        depth - 1,
        |_s| ops.clone(),
        annot_step,
        annot_key,
        op_json,
        json!({"depth": depth}),
    );
}

fn annot_replay(init: &Value, ops: &[Op], cc: &mut CaseCtx) {
    let prefix: Vec<Op> = serde_json::from_value(init["prefix"].clone()).unwrap_or_default();
    let mut s = annot_empty();
    if prefix.is_empty() && ops.is_empty() {
        annot_check(&mut s, cc);
        return;
    }
    for op in prefix.iter().chain(ops.iter()) {
        match annot_step(&s, op, cc) {
            Some(t) => s = t,
            None => break,
        }
    }
}

// ------------------------------------------------------ constructors: FromIterator, Interval::{new,from}

/// how the items of the iterator name their interval: all three are `Into<Interval<i64>>`
const VIAS: [&str; 3] = ["range", "range-ref", "interval"];

fn tree_from_iter(ents: &[Ent], via: &str) -> Result<IntervalTree<i64, u32>, String> {
    let ranges: Vec<std::ops::Range<i64>> = ents.iter().map(|e| e.0..e.1).collect();
    guard(|| match via {
        "range-ref" => IntervalTree::from_iter(ranges.iter().zip(ents.iter().map(|e| e.2))),
        "interval" => ents.iter().map(|e| (Interval::new(e.0..e.1).expect("valid range"), e.2)).collect(),
        _ => IntervalTree::from_iter(ents.iter().map(|e| (e.0..e.1, e.2))),
    })
}

/// `IntervalTree::from_iter(items)` must be the tree that inserting the items one by one gives:
/// equal as values (PartialEq over all fields), equal serde rendering, and the same case function
/// (structure walk + every query through find / find_mut) holds on it.
fn from_iter_check(ents: &[Ent], via: &str, queries: &[(i64, i64)], cc: &mut CaseCtx) {
    let mut one_by_one: IntervalTree<i64, u32> = IntervalTree::new();
    for &(a, b, d) in ents {
        if let Err(msg) = guard(|| one_by_one.insert(a..b, d)) {
            cc.violation("C07/avl/insert/panic", format!("insert({}..{}): {}", a, b, msg));
            return;
        }
    }
    let tree = match tree_from_iter(ents, via) {
        Ok(t) => t,
        Err(msg) => {
            cc.outcome(&"panic");
            cc.violation("C07/avl/from_iter/panic", format!("from_iter over {:?} (items as {}): {}", ents, via, msg));
            return;
        }
    };
    let mut model = ents.to_vec();
    model.sort();
    cc.set_nontrivial(ents.len() >= 3);
    let (w_ref, _) = render_tree(&one_by_one);
    let walked = render_tree(&tree);
    if walked.0.key != w_ref.key || tree != one_by_one {
        cc.violation(
            "C07/avl/from_iter/differs-from-inserting",
            format!("from_iter over {:?} (items as {}) renders as {}, inserting one by one as {}", ents, via, walked.0.key, w_ref.key),
        );
    }
    match avl_structure(walked, &model, "avl/from_iter", cc) {
        Some(r) => cc.outcome(&r.key),
        None => {
            cc.outcome(&"structure");
            return;
        }
    }
    for &(qa, qb) in queries {
        let want = expected(&model, qa, qb);
        match avl_find(&tree, qa, qb) {
            Err(msg) => {
                cc.violation("C07/avl/from_iter/find-panic", format!("find({}..{}): {}", qa, qb, msg));
                return;
            }
            Ok(got) => {
                if got != want {
                    cc.violation(
                        format!("C07/avl/from_iter/find-{}", symptom(&got, &want)),
                        format!("tree from_iter over {:?}: find({}..{}) returned {:?}, overlapping entries are {:?}", ents, qa, qb, got, want),
                    );
                    return;
                }
            }
        }
    }
}

fn ctor_ents(digits: &[usize], dom: &[(i64, i64)]) -> Vec<Ent> {
    // payload = position in the sequence, so that a changed insertion order shows
    digits.iter().enumerate().map(|(i, &d)| (dom[d].0, dom[d].1, i as u32)).collect()
}

/// kind "interval": the three ways to make an `Interval` from the range a..b
fn interval_check(a: i64, b: i64, cc: &mut CaseCtx) {
    let valid = b >= a; // "Will return Err if end < start"
    cc.set_nontrivial(!valid || a == b);
    let newed = guard(|| Interval::new(a..b));
    let from_val = guard(|| Interval::from(a..b));
    let r = a..b;
    let from_ref = guard(|| Interval::from(&r));
    let into_val: Result<Interval<i64>, String> = guard(|| (a..b).into());
    cc.outcome(&(valid, newed.as_ref().map(|x| x.is_ok()).ok(), from_val.is_ok(), from_ref.is_ok()));
    match &newed {
        Err(msg) => cc.violation("C07/interval/new/panic", format!("Interval::new({}..{}): {}", a, b, msg)),
        Ok(Ok(iv)) => {
            if !valid {
                cc.violation("C07/interval/new/negative-width-accepted", format!("Interval::new({}..{}) = Ok({:?})", a, b, iv));
            } else if **iv != (a..b) || iv.start != a || iv.end != b {
                cc.violation("C07/interval/new/wrong-range", format!("Interval::new({}..{}) derefs to {:?}", a, b, **iv));
            }
        }
        Ok(Err(e)) => {
            if valid {
                cc.violation("C07/interval/new/valid-range-refused", format!("Interval::new({}..{}) = Err({:?})", a, b, e));
            } else if format!("{:?}", e) != "InvalidRange" {
                cc.violation("C07/interval/new/wrong-error", format!("Interval::new({}..{}) = Err({:?}), expected InvalidRange", a, b, e));
            }
        }
    }
    for (entry, got) in [("from-range", &from_val), ("from-range-ref", &from_ref), ("range-into", &into_val)] {
        match got {
            Ok(iv) => {
                if !valid {
                    cc.violation(
                        format!("C07/interval/{}/negative-width-no-panic", entry),
                        format!("conversion of {}..{} returned {:?}; it is documented to panic", a, b, iv),
                    );
                } else if **iv != (a..b) {
                    cc.violation(format!("C07/interval/{}/wrong-range", entry), format!("conversion of {}..{} derefs to {:?}", a, b, **iv));
                } else if let Ok(Ok(n)) = &newed {
                    if n != iv {
                        cc.violation(format!("C07/interval/{}/differs-from-new", entry), format!("{:?} vs Interval::new: {:?}", iv, n));
                    }
                }
            }
            Err(msg) => {
                if valid {
                    cc.violation(format!("C07/interval/{}/valid-range-panic", entry), format!("conversion of {}..{}: {}", a, b, msg));
                }
            }
        }
    }
}

fn ctor_queries() -> Vec<(i64, i64)> {
    domain_queries(0, 4)
}

fn ctor_family_queries(model_sorted: &[Ent]) -> Vec<(i64, i64)> {
    let mut pts: Vec<i64> = vec![];
    for e in model_sorted {
        pts.extend([e.0 - 1, e.0, e.1 - 1, e.1]);
    }
    pts.sort();
    pts.dedup();
    pts.into_iter().map(|q| (q, q + 1)).collect()
}

fn constructors_unit(tier: Tier, ctx: &mut Ctx) {
    // Interval::new / From<Range> / From<&Range> on every range with both ends in -3..=3
    for a in -3i64..=3 {
        for b in -3i64..=3 {
            ctx.case(|| json!({"kind": "interval", "start": a, "end": b}), |cc| interval_check(a, b, cc));
        }
    }
    // every sequence of up to L intervals inside [0,4], through each item type
    let dom = domain_intervals(0, 4);
    let queries = ctor_queries();
    for len in 0..=tier.pick(4, 5) {
        let radices = vec![dom.len(); len];
        gen::odometer(&radices, |digits| {
            if ctx.res.capped {
                return;
            }
            for via in VIAS {
                ctx.case(
                    || json!({"kind": "from-iter", "seq": digits, "via": via}),
                    |cc| from_iter_check(&ctor_ents(digits, &dom), via, &queries, cc),
                );
            }
        });
    }
    // the long insertion families of the AVL K1 units, built by from_iter
    for order in ORDERS {
        for width in WIDTHS {
            for n in [5usize, 16, 33, 64, 100] {
                ctx.case(
                    || json!({"kind": "from-iter-family", "order": order, "width": width, "n": n}),
                    |cc| {
                        let ents = family_entries(order, width, n);
                        let mut m = ents.clone();
                        m.sort();
                        from_iter_check(&ents, VIAS[n % 3], &ctor_family_queries(&m), cc)
                    },
                );
            }
        }
    }
}

// ------------------------------------------------------------------------------------------ Prop

#[derive(Clone, Debug)]
enum Unit {
    AvlBfs(&'static str, usize),
    AvlFamily(usize),
    AbtK2(usize),
    Stair(usize),
    Label(usize),
    Misc,
    Annot(usize),
    Constructors,
    Huge,
}

/// heaviest first: the driver hands units out in this order
fn unit_list(tier: Tier) -> Vec<(String, Unit)> {
    // the small unit with the shortest histories goes first so that the first example of a
    // violation class is a smallest witness
    let mut v = vec![("avl-shallow+array-reindex".to_string(), Unit::Misc)];
    for name in AVL_FAMS {
        let fam = avl_fam(name, tier);
        for s in 0..fam.nunits {
            v.push((format!("{}-bfs-{}", fam.name, s), Unit::AvlBfs(fam.name, s)));
        }
    }
    for s in 0..STAIR_SHARDS {
        v.push((format!("array-staircase-{}", s), Unit::Stair(s)));
    }
    for s in 0..ABT_K2_SHARDS {
        v.push((format!("array-k2-{}", s), Unit::AbtK2(s)));
    }
    for s in 0..LABEL_SHARDS {
        v.push((format!("array-labelings-{}", s), Unit::Label(s)));
    }
    for s in 0..ANNOT_SHARDS {
        v.push((format!("annotmap-k2-{}", s), Unit::Annot(s)));
    }
    for s in 0..FAMILY_SHARDS {
        v.push((format!("avl-families-{}", s), Unit::AvlFamily(s)));
    }
    v.push(("constructors".to_string(), Unit::Constructors));
    v.push(("array-huge".to_string(), Unit::Huge));
    v
}

impl Prop for C07Prop {
    fn id(&self) -> &'static str {
        "C07"
    }
    fn level(&self) -> &'static str {
        "model_checking"
    }
    fn rule(&self) -> &'static str {
        "K2: breadth-first search over operation histories on the real object next to a Vec model (AVL tree: insert, and insert mixed with payload writes through find_mut; array-backed tree: insert/index; AnnotMap: insert_at/insert_loc on two references); states merged on the serde rendering of every field of the real object plus the model; every transition is one case (distinct (history) by construction) and is followed by the structural walk and by every query of the domain through find and find_mut (resp. find/find_into, or the refusal check while un-indexed). K1: prefix-closed insertion families (7 orders x 5 width patterns, every n) for the AVL tree; unit staircases with every choice of <=2 long members, all short/long labelings, and insert-after-index schedules for the array-backed tree. Non-trivial: AVL insert that triggered a rotation (new shape is not old shape plus one leaf), find_mut write that touches some but not all entries, AVL family with n>=3; array K2 transition after the tree had been indexed once; staircase with n>=16 and a long member; labeling with a long member; re-index schedule with >=16 entries; AnnotMap insert when both references are populated or the target tree has >=2 entries. Unit constructors (K1): interval = one range a..b with both ends in -3..=3 through Interval::new (Err(InvalidRange) iff end < start, otherwise derefs to a..b), From<Range>, From<&Range> and Range::into (equal to new() on valid ranges, panic on negative width as documented); from-iter = one (sequence of up to 4|5 intervals inside [0,4], item type Range / &Range / Interval): IntervalTree::from_iter equals the tree obtained by inserting one by one (PartialEq and serde rendering), passes the structural walk and answers every domain query like the filter; from-iter-family = the same for the K1 insertion families at n in {5,16,33,64,100}; non-trivial: negative or zero width (interval), at least 3 entries (from-iter)."
    }
    fn assumptions(&self) -> Vec<&'static str> {
        vec![
            "oracle: naive filter a < qb && qa < b over the list of inserted entries, compared as sorted multisets of (start,end,payload)",
            "private fields are read through the serde_json rendering of the object (all fields are serialised: to_writer for the AVL tree and AnnotMap, to_value for the array-backed tree); the state key contains every one of them plus the model, so merging states is sound",
            "structural invariants (stored height, stored max, ordering) are checked as the mechanism behind the statement: a stale max that is too small loses results, a stale height breaks balancing later; 'max too large' costs time only and has its own key",
            "height clause: besides |h_left-h_right|<=1 at every node, n >= N(h) with N(h)=N(h-1)+N(h-2)+1 (equivalent to h <= 1.4405 log2(n+2)-0.33)",
            "un-indexed array-backed tree: any panic of find/find_into counts as refusal; a tree on which index() was never called counts as un-indexed even when empty",
            "only positive-width intervals and queries are used in trees; order of results is not compared",
            "Interval constructors: a zero-width range (start == end) is accepted (the documentation refuses only end < start); the error is recognised by its Debug rendering 'InvalidRange' because the error type's module is private; the panic message of the conversions is not compared",
            "AnnotMap payload is a wrapper around bio-types Contig implementing Loc (Contig itself is not Serialize in this build); locations and queries are plain Contigs",
        ]
    }
    fn bounds(&self, tier: Tier) -> Value {
        let f = |n: &str| {
            let fam = avl_fam(n, tier);
            json!({"ops": fam.ops.iter().map(op_json).collect::<Vec<_>>(), "depth": fam.depth, "queries": fam.queries.len()})
        };
        json!({
            "avl_k2": {"avl4": f("avl4"), "avl3": f("avl3"), "avlw": f("avlw"), "avlmix": f("avlmix")},
            "avl_families": {"orders": ORDERS, "widths": WIDTHS, "n": format!("1..={}", tier.pick(200, 400)), "queries": "[q,q+1) and [q,q+2) at every start-1,start,end-1,end"},
            "array_k2": {"ops": "insert of the 10 intervals inside [0,4], index", "depth": tier.pick(5, 6), "queries": "all 10 + 6 boundary queries, find and find_into"},
            "array_staircase": {"n": format!("0..={}", tier.pick(64, 130)), "long_lengths": LONGS, "long_members": "none, every single position (orders asc/rev/stride), every pair of positions (asc)", "pair_lengths": pair_lengths(tier), "queries": "[q,q+1),[q,q+2) for q in -1..2n+2, plus 4 far/covering"},
            "array_labelings": {"n": label_sizes(tier), "long_lengths": LABEL_LONG, "labelings": "all 2^n"},
            "array_reindex": {"n1": format!("0..={}", tier.pick(28, 56)), "n2": format!("1..={}", tier.pick(28, 56)), "variants": "insert+index, from_iter"},
            "constructors": {"interval_ends": "-3..=3 x -3..=3", "from_iter_seq_len": format!("0..={}", tier.pick(4, 5)), "from_iter_domain": "the 10 intervals inside [0,4]", "item_types": VIAS, "from_iter_families": "7 orders x 5 widths x n in {5,16,33,64,100}"},
            "annotmap_k2": {"refs": REFS, "unknown_ref": UNKNOWN_REF, "locations(start,len)": LOCS, "ops": "insert_loc, insert_at for every (ref, location)", "depth": tier.pick(4, 5)}
        })
    }
    fn units(&self, tier: Tier) -> Vec<String> {
        unit_list(tier).into_iter().map(|u| u.0).collect()
    }
    fn run_unit(&self, tier: Tier, unit: usize, ctx: &mut Ctx) {
        let list = unit_list(tier);
        match list.get(unit).map(|u| u.1.clone()) {
            Some(Unit::AvlBfs(f, s)) => avl_bfs_unit(f, s, tier, ctx),
            Some(Unit::AvlFamily(s)) => avl_family_unit(s, tier, ctx),
            Some(Unit::AbtK2(s)) => abt_k2_unit(s, tier, ctx),
            Some(Unit::Stair(s)) => stair_unit(s, tier, ctx),
            Some(Unit::Label(s)) => label_unit(s, tier, ctx),
            Some(Unit::Misc) => {
                avl_shallow_unit(tier, ctx);
                reindex_unit(tier, ctx);
            }
            Some(Unit::Annot(s)) => annot_unit(s, tier, ctx),
            Some(Unit::Constructors) => constructors_unit(tier, ctx),
            Some(Unit::Huge) => huge_unit(tier, ctx),
            None => {}
        }
    }
    fn replay(&self, case: &Value, ctx: &mut Ctx) {
        let tier = ctx.tier;
        match case["kind"].as_str().unwrap_or("") {
            "history" => {
                let init = case["init"].clone();
                let ops: Vec<Op> = serde_json::from_value(case["ops"].clone()).unwrap_or_default();
                match init["family"].as_str().unwrap_or("") {
                    "array" => ctx.case(|| case.clone(), |cc| abt_replay(&init, &ops, cc)),
                    "annotmap" => ctx.case(|| case.clone(), |cc| annot_replay(&init, &ops, cc)),
                    _ => ctx.case(|| case.clone(), |cc| avl_replay(&init, &ops, tier, cc)),
                }
            }
            "avl-family" => {
                let order = ORDERS.iter().find(|o| case["order"] == **o).copied().unwrap_or("asc");
                let width = WIDTHS.iter().find(|o| case["width"] == **o).copied().unwrap_or("w1");
                let n = case["n"].as_u64().unwrap_or(0) as usize;
                ctx.case(|| case.clone(), |cc| avl_family_check(order, width, n, cc));
            }
            "huge-stair" => {
                let n = (case["n"].as_u64().unwrap_or(0) as usize).min(1 << 22);
                let order = ["asc", "rev", "stride"].iter().find(|o| case["order"] == **o).copied().unwrap_or("asc");
                ctx.case(|| case.clone(), |cc| huge_check(n, order, cc));
            }
            "stair" => {
                let n = case["n"].as_u64().unwrap_or(0) as usize;
                let longs: Vec<(usize, i64)> = serde_json::from_value(case["long"].clone()).unwrap_or_default();
                let order = ["asc", "rev", "stride"].iter().find(|o| case["order"] == **o).copied().unwrap_or("asc");
                ctx.case(|| case.clone(), |cc| stair_check(n, &longs, order, cc));
            }
            "labeling" => {
                let n = case["n"].as_u64().unwrap_or(0) as usize;
                let mask = case["mask"].as_u64().unwrap_or(0) as u32;
                let long = case["long"].as_i64().unwrap_or(5);
                ctx.case(|| case.clone(), |cc| label_check(n, mask, long, cc));
            }
            "interval" => {
                let a = case["start"].as_i64().unwrap_or(0);
                let b = case["end"].as_i64().unwrap_or(0);
                ctx.case(|| case.clone(), |cc| interval_check(a, b, cc));
            }
            "from-iter" => {
                let dom = domain_intervals(0, 4);
                let digits: Vec<usize> = serde_json::from_value(case["seq"].clone()).unwrap_or_default();
                let via = VIAS.iter().find(|v| case["via"] == **v).copied().unwrap_or("range");
                if digits.iter().any(|&d| d >= dom.len()) {
                    return;
                }
                ctx.case(|| case.clone(), |cc| from_iter_check(&ctor_ents(&digits, &dom), via, &ctor_queries(), cc));
            }
            "from-iter-family" => {
                let order = ORDERS.iter().find(|o| case["order"] == **o).copied().unwrap_or("asc");
                let width = WIDTHS.iter().find(|o| case["width"] == **o).copied().unwrap_or("w1");
                let n = case["n"].as_u64().unwrap_or(0) as usize;
                ctx.case(
                    || case.clone(),
                    |cc| {
                        let ents = family_entries(order, width, n);
                        let mut m = ents.clone();
                        m.sort();
                        from_iter_check(&ents, VIAS[n % 3], &ctor_family_queries(&m), cc)
                    },
                );
            }
            "reindex" => {
                let n1 = case["n1"].as_u64().unwrap_or(0) as usize;
                let n2 = case["n2"].as_u64().unwrap_or(0) as usize;
                let variant = case["variant"].as_u64().unwrap_or(0);
                ctx.case(|| case.clone(), |cc| reindex_check(n1, n2, variant, cc));
            }
            _ => {}
        }
    }
}
