//! C15 — log-space probability arithmetic agrees with linear-space arithmetic within 0.5 % of the
//! largest operand.
//!
//! The statement quantifies over a continuum ([0,1] resp. [-inf,0]).  What is decided here is its
//! restriction to finite operand grids chosen to contain every regime of the piecewise formulas,
//! plus bit-exhaustive neighbourhoods (every f64 within +-K ulps) of the points where a formula
//! switches: the fast-exp cut-off -500, the ln(1-e^p) branch point -0.693, every argument at which
//! d*log2(e) crosses an integer (the exponent bit trick of fastexp), and d -> -0.
//! "exhaustive" in the evidence refers to these grids.
//! Appended unit "entry-points": is_valid, cap_numerical_overshoot, Sum, += / -=, NotNan
//! conversions, Default and num_traits::Zero, each as an equivalent route to the above.

use super::Prop;
use crate::ctx::{guard, CaseCtx, Ctx, Tier};
use bio::stats::{LogProb, PHREDProb, Prob};
use num_traits::Zero;
use ordered_float::NotNan;
use serde_json::{json, Value};
use std::convert::TryFrom;

pub struct C15Prop;
pub static C15: C15Prop = C15Prop;

const NEG_INF: f64 = f64::NEG_INFINITY;
/// the bound of the statement: 0.5 % of the largest operand
const TOL: f64 = 0.005;
/// where no approximate exponential is involved
const EXACT_REL: f64 = 1e-9;
/// same literal as src/utils/fastexp.rs (only used to locate the neighbourhoods to sweep)
const ONEBYLOG2: f64 = 1.442_695_041;
const FASTEXP_CUTOFF: f64 = -500.0;

// ------------------------------------------------------------------------- exact f64 rendering

/// human-readable value next to the authoritative bit pattern
fn fv(x: f64) -> Value {
    json!({"v": format!("{:?}", x), "bits": x.to_bits()})
}
fn unfv(v: &Value) -> Option<f64> {
    v["bits"].as_u64().map(f64::from_bits)
}
fn show(x: f64) -> String {
    format!("{:?} (bits {:#018x})", x, x.to_bits())
}

// ------------------------------------------------------------------------------- accumulator

/// collects the observations of one case: result hash, non-triviality, first failure per key
struct Acc {
    h: u64,
    nontrivial: bool,
    evals: u64,
    fails: Vec<(String, String, u64)>,
}

impl Acc {
    fn new() -> Acc {
        Acc { h: 0xcbf2_9ce4_8422_2325, nontrivial: false, evals: 0, fails: vec![] }
    }
    #[inline]
    fn obs(&mut self, x: f64) {
        self.h = (self.h ^ x.to_bits()).wrapping_mul(0x0000_0100_0000_01B3);
        self.evals += 1;
    }
    fn fail(&mut self, op: &str, symptom: &str, detail: impl FnOnce() -> String) {
        let key = format!("C15/{}/{}", op, symptom);
        if let Some(e) = self.fails.iter_mut().find(|e| e.0 == key) {
            e.2 += 1;
        } else {
            self.fails.push((key, detail(), 1));
        }
    }
    fn finish(self, cc: &mut CaseCtx) {
        cc.set_nontrivial(self.nontrivial);
        cc.outcome(&self.h);
        cc.count("evaluations", self.evals);
        for (key, detail, n) in self.fails {
            cc.violation(key, format!("{} [first of {} failing evaluations in this case]", detail, n));
        }
    }
}

/// does the pair exercise the approximate exponential with a non-zero result?
#[inline]
fn live(d: f64) -> bool {
    d > FASTEXP_CUTOFF && d < 0.0
}

// ------------------------------------------------------------------- single-operation checks

/// ln_add_exp(p,q): |e^(r-max) - (e^(p-max)+e^(q-max))| <= 0.005
fn chk_add(a: &mut Acc, p: f64, q: f64) {
    let r = match guard(|| *LogProb(p).ln_add_exp(LogProb(q))) {
        Ok(r) => r,
        Err(m) => return a.fail("ln_add_exp", "panic", || format!("p={} q={}: {}", show(p), show(q), m)),
    };
    a.obs(r);
    let mx = p.max(q);
    if live(p.min(q) - mx) {
        a.nontrivial = true;
    }
    if r.is_nan() {
        return a.fail("ln_add_exp", "nan", || format!("p={} q={} gives NaN", show(p), show(q)));
    }
    if mx == NEG_INF {
        if r != NEG_INF {
            a.fail("ln_add_exp", "zero-not-neutral", || format!("ln0 + ln0 gives {}", show(r)));
        }
        return;
    }
    let got = (r - mx).exp();
    let want = (p - mx).exp() + (q - mx).exp();
    if !((got - want).abs() <= TOL) {
        let sym = if p == NEG_INF || q == NEG_INF { "zero-not-neutral" } else { "error-above-bound" };
        a.fail("ln_add_exp", sym, || {
            format!("p={} q={} result {}: relative to the larger operand got {} expected {}", show(p), show(q), show(r), got, want)
        });
    }
}

/// ln_sub_exp(p,q) for p >= q: |e^(r-p) - (1-e^(q-p))| <= 0.005
fn chk_sub(a: &mut Acc, p: f64, q: f64) {
    debug_assert!(p >= q);
    let r = match guard(|| *LogProb(p).ln_sub_exp(LogProb(q))) {
        Ok(r) => r,
        Err(m) => return a.fail("ln_sub_exp", "panic", || format!("p={} q={}: {}", show(p), show(q), m)),
    };
    a.obs(r);
    if live(q - p) {
        a.nontrivial = true;
    }
    if r.is_nan() {
        return a.fail("ln_sub_exp", "nan", || format!("p={} q={} gives NaN", show(p), show(q)));
    }
    if p == NEG_INF {
        if r != NEG_INF {
            a.fail("ln_sub_exp", "zero-not-neutral", || format!("ln0 - ln0 gives {}", show(r)));
        }
        return;
    }
    let got = (r - p).exp();
    let want = 1.0 - (q - p).exp();
    if !((got - want).abs() <= TOL) {
        let sym = if q == NEG_INF { "zero-not-neutral" } else { "error-above-bound" };
        a.fail("ln_sub_exp", sym, || {
            format!("p={} q={} result {}: relative to p got {} expected {}", show(p), show(q), show(r), got, want)
        });
    }
}

/// ln_one_minus_exp(p): |e^r - (1-e^p)| <= 0.005 (the largest operand is 1)
fn chk_one_minus(a: &mut Acc, p: f64) {
    let r = match guard(|| *LogProb(p).ln_one_minus_exp()) {
        Ok(r) => r,
        Err(m) => return a.fail("ln_one_minus_exp", "panic", || format!("p={}: {}", show(p), m)),
    };
    a.obs(r);
    if live(p) {
        a.nontrivial = true;
    }
    if r.is_nan() {
        return a.fail("ln_one_minus_exp", "nan", || format!("p={} gives NaN", show(p)));
    }
    let got = r.exp();
    let want = 1.0 - p.exp();
    if !((got - want).abs() <= TOL) {
        a.fail("ln_one_minus_exp", "error-above-bound", || {
            format!("p={} result {}: got {} expected {}", show(p), show(r), got, want)
        });
    }
}

/// ln_sum_exp(list) and ln_cumsum_exp(list): every (prefix) sum within 0.005 of the linear sum,
/// both taken relative to the largest operand (of the prefix)
fn chk_list(a: &mut Acc, xs: &[f64]) {
    let lps: Vec<LogProb> = xs.iter().map(|&x| LogProb(x)).collect();
    // n-ary sum
    match guard(|| *LogProb::ln_sum_exp(&lps)) {
        Err(m) => a.fail("ln_sum_exp", "panic", || format!("{:?}: {}", xs, m)),
        Ok(r) => {
            a.obs(r);
            chk_sum_value(a, "ln_sum_exp", xs, r);
        }
    }
    // cumulative sum
    match guard(|| LogProb::ln_cumsum_exp(lps.iter().cloned()).map(|x| *x).collect::<Vec<f64>>()) {
        Err(m) => a.fail("ln_cumsum_exp", "panic", || format!("{:?}: {}", xs, m)),
        Ok(cs) => {
            if cs.len() != xs.len() {
                a.fail("ln_cumsum_exp", "length-differs", || format!("{} inputs, {} outputs", xs.len(), cs.len()));
            } else {
                for (i, &r) in cs.iter().enumerate() {
                    a.obs(r);
                    chk_sum_value(a, "ln_cumsum_exp", &xs[..=i], r);
                }
            }
        }
    }
}

fn chk_sum_value(a: &mut Acc, op: &str, xs: &[f64], r: f64) {
    let mx = xs.iter().cloned().fold(NEG_INF, f64::max);
    if xs.iter().filter(|&&x| live(x - mx)).count() >= 1 {
        a.nontrivial = true;
    }
    if r.is_nan() {
        return a.fail(op, "nan", || format!("{:?} gives NaN", xs));
    }
    if mx == NEG_INF {
        if r != NEG_INF {
            a.fail(op, "zero-not-neutral", || format!("sum of {} zero probabilities gives {}", xs.len(), show(r)));
        }
        return;
    }
    let got = (r - mx).exp();
    let want: f64 = xs.iter().map(|&x| (x - mx).exp()).sum();
    if !((got - want).abs() <= TOL) {
        let sym = if xs.iter().filter(|&&x| x != NEG_INF).count() == 1 { "zero-not-neutral" } else { "error-above-bound" };
        a.fail(op, sym, || {
            format!("{:?} result {}: relative to the largest operand got {} expected {}", xs, show(r), got, want)
        });
    }
}

/// Prob::from(LogProb(d)) against e^d, 0.5 % relative (this is the approximate exponential itself)
fn chk_to_prob(a: &mut Acc, d: f64) {
    let r = match guard(|| *Prob::from(LogProb(d))) {
        Ok(r) => r,
        Err(m) => return a.fail("conv/logprob-to-prob", "panic", || format!("ln p={}: {}", show(d), m)),
    };
    a.obs(r);
    if r.is_nan() {
        return a.fail("conv/logprob-to-prob", "nan", || format!("ln p={} gives NaN", show(d)));
    }
    let want = d.exp();
    if !((r - want).abs() <= TOL * want) {
        if r == 0.0 && d <= FASTEXP_CUTOFF {
            a.fail("conv/logprob-to-prob", "flush-to-zero-below-exp-minus-500", || {
                format!("ln p={} converts to probability 0, e^(ln p) = {:e}", show(d), want)
            });
        } else {
            a.fail("conv/logprob-to-prob", "error-above-bound", || {
                format!("ln p={} converts to {:e}, e^(ln p) = {:e}", show(d), r, want)
            });
        }
    }
}

/// everything that depends on one difference d <= 0 (second operand relative to a first operand 0)
fn chk_point(a: &mut Acc, d: f64) {
    chk_add(a, 0.0, d);
    chk_add(a, d, 0.0);
    chk_sub(a, 0.0, d);
    chk_one_minus(a, d);
    chk_to_prob(a, d);
    let lps = [LogProb(d), LogProb(0.0)];
    match guard(|| *LogProb::ln_sum_exp(&lps)) {
        Err(m) => a.fail("ln_sum_exp", "panic", || format!("[{}, 0]: {}", show(d), m)),
        Ok(r) => {
            a.obs(r);
            chk_sum_value(a, "ln_sum_exp", &[d, 0.0], r);
        }
    }
}

// --------------------------------------------------------------------------------- the grids

/// extra operands of the pair grid: regime boundaries of the piecewise formulas
const EXTRAS: &[f64] = &[
    -5e-324, -2.2250738585072014e-308, -1e-300, -1e-100, -1e-17, -1.1102230246251565e-16, -2.220446049250313e-16,
    -1e-12, -1e-9, -1e-6, -1e-4, -0.001, -0.6929999999999999, -0.693, -0.6930000000000001, -0.6931471805599453,
    -0.694, -25.0, -36.0, -36.7368005696771, -37.0, -38.0, -40.0, -50.0, -100.0, -300.0, -499.9, -499.99999999999994,
    -500.0, -500.00000000000006, -500.1, -700.0, -708.0, -709.0, -745.0, -745.1332191019411, -746.0, -1000.0, -1e6,
];

/// G(n, step) = {-inf, -step*i (0 <= i < n)} + EXTRAS, ascending magnitude, de-duplicated on bits
fn pair_grid(n: usize, step: f64) -> Vec<f64> {
    let mut g: Vec<f64> = vec![NEG_INF];
    for i in 0..n {
        g.push(if i == 0 { 0.0 } else { -(i as f64) * step });
    }
    g.extend_from_slice(EXTRAS);
    g.sort_by(|a, b| b.partial_cmp(a).unwrap());
    g.dedup_by_key(|x| x.to_bits());
    g
}

fn pair_params(tier: Tier) -> (usize, f64) {
    tier.pick((4000, 0.00625), (10000, 0.0025))
}

/// operands of the list clause (ln_sum_exp / ln_cumsum_exp)
const H12: &[f64] = &[NEG_INF, 0.0, -0.05, -0.5, -0.6931471805599453, -1.0, -5.0, -25.0, -100.0, -499.9, -500.1, -745.0];
const H16: &[f64] = &[
    NEG_INF, 0.0, -1e-9, -0.05, -0.5, -0.6931471805599453, -1.0, -2.302585092994046, -5.0, -25.0, -37.0, -100.0, -499.9,
    -500.1, -745.0, -1000.0,
];
fn hset(name: &str) -> &'static [f64] {
    if name == "H16" {
        H16
    } else {
        H12
    }
}

/// centres of the bit-exhaustive neighbourhoods.  A centre whose neighbourhood of the given radius
/// would overlap the neighbourhood of an earlier centre is dropped (its floats are already swept
/// from there), so that no float is evaluated in two cases.
fn switch_points(radius: i64) -> Vec<(String, f64)> {
    let mut v: Vec<(String, f64)> = vec![
        ("fastexp-cutoff".to_string(), FASTEXP_CUTOFF),
        ("ln_1m_exp-branch".to_string(), -0.693),
        ("minus-zero".to_string(), -0.0),
        ("exp-underflow".to_string(), -745.1332191019411),
    ];
    // d * ONEBYLOG2 crosses the integer -k: the exponent field of the bit trick changes
    for k in 1..=721 {
        v.push((format!("exponent-step-{}", k), -(k as f64) / ONEBYLOG2));
    }
    // exact ln(1/2) and the point where 1 + e^d rounds to 1 (both close to an exponent step)
    v.push(("ln-half".to_string(), -0.6931471805599453));
    v.push(("one-plus-x-rounds-to-one".to_string(), -36.7368005696771));
    let mag = |x: f64| (x.to_bits() & 0x7fff_ffff_ffff_ffff) as i64;
    let mut kept: Vec<(String, f64)> = vec![];
    for (name, c) in v {
        if kept.iter().all(|(_, k)| (mag(*k) - mag(c)).abs() > 2 * radius + 1) {
            kept.push((name, c));
        }
    }
    kept
}

/// the f64 `off` ulps from `center` (center <= -0.0), positive offsets towards zero
fn neighbour(center: f64, off: i64) -> Option<f64> {
    let mag = (center.to_bits() & 0x7fff_ffff_ffff_ffff) as i64;
    let m = mag - off;
    if m < 0 || m >= 0x7ff0_0000_0000_0000 {
        return None;
    }
    Some(f64::from_bits(m as u64 | 0x8000_0000_0000_0000))
}

const BLOCK: usize = 4096;

// ------------------------------------------------------------------------------ integration

const DENSITIES: &[&str] = &["uniform", "triangular", "exponential", "gauss", "steep", "zero", "half-exponential", "epanechnikov", "comb"];

/// ln density and the interval(s) it is integrated over
fn ln_density(name: &str, a: f64, b: f64, x: f64) -> f64 {
    match name {
        "uniform" => -(b - a).ln(),
        "triangular" => {
            // peak in the middle, zero (ln = -inf) at both ends
            let u = (x - a) / (b - a);
            let f = if u <= 0.5 { 4.0 * u } else { 4.0 * (1.0 - u) };
            (f.max(0.0) / (b - a)).ln()
        }
        "exponential" => -x,
        "gauss" => -0.5 * x * x - 0.918_938_533_204_672_7,
        "steep" => -1000.0 * (x - a),
        // densities that are exactly zero (ln = -inf) at interior grid points
        "half-exponential" => if x >= 0.0 { -x } else { NEG_INF },
        "epanechnikov" => if x.abs() < 1.0 { (0.75 * (1.0 - x * x)).ln() } else { NEG_INF },
        // zero on every second unit interval
        "comb" => if (x.floor() as i64).rem_euclid(2) == 0 { -0.1 * x.abs() } else { NEG_INF },
        _ => NEG_INF,
    }
}

fn intervals(name: &str) -> Vec<(f64, f64)> {
    match name {
        "uniform" => vec![(0.0, 10.0), (-3.0, 0.5), (1e-3, 1e3)],
        "triangular" => vec![(0.0, 1.0), (-2.0, 6.0)],
        "exponential" => vec![(0.0, 1.0), (0.0, 10.0), (0.0, 50.0), (0.0, 800.0), (600.0, 700.0)],
        "gauss" => vec![(-4.0, 4.0), (-40.0, 40.0), (0.0, 8.0), (-1.0, 0.25)],
        "steep" => vec![(0.0, 1.0), (2.0, 2.5)],
        "half-exponential" => vec![(-5.0, 5.0), (-1.0, 3.0)],
        "epanechnikov" => vec![(-2.0, 2.0), (-1.0, 4.0)],
        "comb" => vec![(0.0, 8.0), (-3.0, 3.0)],
        _ => vec![(0.0, 1.0)],
    }
}

fn integration_ns(tier: Tier) -> Vec<usize> {
    match tier {
        Tier::Quick => vec![3, 4, 5, 9, 10, 33, 101],
        Tier::Thorough => {
            let mut v: Vec<usize> = (3..=65).collect();
            v.extend([100, 101, 257, 1001]);
            v
        }
    }
}

fn grid_points(shape: &str, a: f64, b: f64, n: usize) -> Vec<f64> {
    (0..n)
        .map(|i| {
            let u = i as f64 / (n - 1) as f64;
            let u = if shape == "quadratic" { u * u } else { u };
            if i == n - 1 {
                b
            } else {
                a + (b - a) * u
            }
        })
        .collect()
}

/// one integration case.  The reference is the *same quadrature formula* evaluated in linear
/// space (not the true integral); the comparison is made relative to the largest weighted operand.
fn check_integration(method: &str, dens: &str, a0: f64, b0: f64, n: usize, shape: &str, by_index: bool, cc: &mut CaseCtx) {
    let mut a = Acc::new();
    let op = match method {
        "trapezoid" => "ln_trapezoidal_integrate_exp",
        "simpson" => "ln_simpsons_integrate_exp",
        _ => "ln_trapezoidal_integrate_grid_exp",
    };
    let xs = grid_points(shape, a0, b0, n);
    // the density closure receives (index, x); a tabulated density looks its value up by index
    // (only for the grid helper, whose indices are the positions in the caller's own grid)
    let table: Vec<f64> = xs.iter().map(|&x| ln_density(dens, a0, b0, x)).collect();
    let f = |i: usize, x: f64| {
        if by_index {
            LogProb(table[i])
        } else {
            LogProb(ln_density(dens, a0, b0, x))
        }
    };
    let r = guard(|| match method {
        "trapezoid" => *LogProb::ln_trapezoidal_integrate_exp(f, a0, b0, n),
        "simpson" => *LogProb::ln_simpsons_integrate_exp(f, a0, b0, n),
        _ => *LogProb::ln_trapezoidal_integrate_grid_exp(f, &xs),
    });
    let r = match r {
        Ok(r) => r,
        Err(m) => {
            a.fail(op, "panic", || m);
            return a.finish(cc);
        }
    };
    a.obs(r);
    let lf: Vec<f64> = xs.iter().map(|&x| ln_density(dens, a0, b0, x)).collect();
    // weighted terms in log space: ln(w_i) + ln f(x_i) (+ ln scale)
    let (terms, ln_scale, tol_factor): (Vec<f64>, f64, f64) = match method {
        "trapezoid" => (
            (0..n).map(|i| lf[i] + if i == 0 || i == n - 1 { 0.0 } else { 2f64.ln() }).collect(),
            (b0 - a0).ln() - (2.0 * (n - 1) as f64).ln(),
            1.0,
        ),
        "simpson" => (
            (0..n)
                .map(|i| lf[i] + if i == 0 || i == n - 1 { 0.0 } else if i % 2 == 1 { 4f64.ln() } else { 2f64.ln() })
                .collect(),
            (b0 - a0).ln() - (3.0 * (n - 1) as f64).ln(),
            1.0,
        ),
        _ => {
            // segment areas (f(x_{i-1}) + f(x_i)) / 2 * dx, in log space relative to nothing
            let lmax = lf.iter().cloned().fold(NEG_INF, f64::max);
            let t = (1..n)
                .map(|i| {
                    if lmax == NEG_INF {
                        NEG_INF
                    } else {
                        lmax + ((lf[i - 1] - lmax).exp() + (lf[i] - lmax).exp()).ln() - 2f64.ln() + (xs[i] - xs[i - 1]).ln()
                    }
                })
                .collect();
            // two approximate operations are composed (pairwise add, then n-ary sum)
            (t, 0.0, 2.0)
        }
    };
    let tmax = terms.iter().cloned().fold(NEG_INF, f64::max);
    a.nontrivial = terms.iter().filter(|&&t| live(t - tmax)).count() >= 1;
    if r.is_nan() {
        a.fail(op, "nan", || format!("result NaN for density {} on [{}, {}], n={}", dens, a0, b0, n));
    } else if tmax == NEG_INF {
        if r != NEG_INF {
            a.fail(op, "zero-not-neutral", || format!("density is zero everywhere but the result is {}", show(r)));
        }
    } else {
        let want: f64 = terms.iter().map(|&t| (t - tmax).exp()).sum();
        let got = (r - ln_scale - tmax).exp();
        let tol = if tol_factor == 1.0 { TOL } else { TOL + TOL * 1.005 * want };
        if !((got - want).abs() <= tol) {
            a.fail(op, "error-above-bound", || {
                format!(
                    "density {} on [{}, {}], n={} ({}): result {}; relative to the largest weighted operand got {} expected {} (same quadrature in linear space)",
                    dens, a0, b0, n, shape, show(r), got, want
                )
            });
        }
    }
    a.finish(cc)
}

// -------------------------------------------------------------------------------- conversions

fn conversion_probs(tier: Tier) -> Vec<f64> {
    let mut v: Vec<f64> = (0..=1000).map(|i| i as f64 / 1000.0).collect();
    for j in 4..=323 {
        v.push(format!("1e-{}", j).parse::<f64>().unwrap());
    }
    v.extend([7.2e-218, 7.1e-218, 5e-324, 2.2250738585072014e-308, 0.9999999999999999]);
    if tier == Tier::Thorough {
        for i in 1..100_000 {
            if i % 100 != 0 {
                v.push(i as f64 / 100_000.0);
            }
        }
    }
    v
}

/// Prob <-> LogProb <-> PHRED for one probability p in [0,1]
fn check_conversion(p: f64, cc: &mut CaseCtx) {
    let mut a = Acc::new();
    a.nontrivial = p > 0.0 && p < 1.0;
    let r = guard(|| {
        let lp = LogProb::from(Prob(p));
        let back = Prob::from(lp);
        let ph = PHREDProb::from(Prob(p));
        let back_ph = Prob::from(ph);
        let lp_via_ph = LogProb::from(ph);
        let ph_via_lp = PHREDProb::from(lp);
        let lp_rt = LogProb::from(ph_via_lp);
        (*lp, *back, *ph, *back_ph, *lp_via_ph, *ph_via_lp, *lp_rt)
    });
    let (lp, back, ph, back_ph, lp_via_ph, ph_via_lp, lp_rt) = match r {
        Ok(t) => t,
        Err(m) => {
            a.fail("conv", "panic", || format!("p={}: {}", show(p), m));
            return a.finish(cc);
        }
    };
    for x in [lp, back, ph, back_ph, lp_via_ph, ph_via_lp, lp_rt] {
        a.obs(x);
        if x.is_nan() {
            a.fail("conv", "nan", || format!("p={} produced NaN somewhere in (ln p, back, phred, back, ln via phred, phred via ln, ln round trip) = {:?}", show(p), (lp, back, ph, back_ph, lp_via_ph, ph_via_lp, lp_rt)));
        }
    }
    let ln_p = p.ln();
    // exact-path conversions: relative 1e-9 in probability == absolute 1e-9 in natural-log units
    let log_close = |x: f64, y: f64| (x == y) || (x - y).abs() <= EXACT_REL;
    if !log_close(lp, ln_p) {
        a.fail("conv/prob-to-logprob", "error-above-bound", || format!("p={} gives ln p = {} expected {}", show(p), show(lp), ln_p));
    }
    if !((back_ph - p).abs() <= EXACT_REL * p) {
        a.fail("conv/prob-phred-prob", "error-above-bound", || format!("p={} -> PHRED {} -> {}", show(p), ph, show(back_ph)));
    }
    if !log_close(lp_via_ph, ln_p) {
        a.fail("conv/phred-to-logprob", "error-above-bound", || format!("p={} -> PHRED {} -> ln p {} expected {}", show(p), ph, show(lp_via_ph), ln_p));
    }
    // PHRED units back to natural-log units: x * ln(10)/10
    let phred_as_ln = |x: f64| -x * std::f64::consts::LN_10 / 10.0;
    if !log_close(phred_as_ln(ph_via_lp), ln_p) {
        a.fail("conv/logprob-to-phred", "error-above-bound", || format!("p={} -> ln p {} -> PHRED {} expected {}", show(p), lp, show(ph_via_lp), -10.0 * p.log10()));
    }
    if !log_close(lp_rt, ln_p) {
        a.fail("conv/logprob-phred-logprob", "error-above-bound", || format!("p={}: ln p {} -> PHRED -> {}", show(p), lp, show(lp_rt)));
    }
    // the path through the approximate exponential: 0.5 %
    if !back.is_nan() && !((back - p).abs() <= TOL * p) {
        if back == 0.0 && ln_p <= FASTEXP_CUTOFF {
            a.fail("conv/logprob-to-prob", "flush-to-zero-below-exp-minus-500", || {
                format!("p={} -> ln p = {} -> probability 0", show(p), lp)
            });
        } else {
            a.fail("conv/prob-logprob-prob", "error-above-bound", || format!("p={} -> ln p = {} -> {}", show(p), lp, show(back)));
        }
    }
    a.finish(cc)
}

/// (value, must be accepted?) — None: either answer is fine (-0.0 equals 0 but carries a sign)
fn checked_values() -> Vec<(f64, Option<bool>)> {
    vec![
        (-0.1, Some(false)),
        (-5e-324, Some(false)),
        (-1e-300, Some(false)),
        (-1.0, Some(false)),
        (-0.0, None),
        (0.0, Some(true)),
        (5e-324, Some(true)),
        (0.5, Some(true)),
        (0.9999999999999999, Some(true)),
        (1.0, Some(true)),
        (1.0000000000000002, Some(false)),
        (1.0000001, Some(false)),
        (2.0, Some(false)),
        (1.7976931348623157e308, Some(false)),
        (f64::NAN, Some(false)),
        (f64::INFINITY, Some(false)),
        (f64::NEG_INFINITY, Some(false)),
    ]
}

fn check_checked(x: f64, cc: &mut CaseCtx) {
    let expect = checked_values().iter().find(|(v, _)| v.to_bits() == x.to_bits()).map(|e| e.1).unwrap_or_else(|| {
        if x.is_nan() {
            Some(false)
        } else {
            Some((0.0..=1.0).contains(&x))
        }
    });
    cc.set_nontrivial(expect == Some(false));
    match guard(|| Prob::checked(x).map(|p| *p).map_err(|e| e.to_string())) {
        Err(m) => cc.violation("C15/prob-checked/panic", format!("x={}: {}", show(x), m)),
        Ok(r) => {
            cc.outcome(&r.is_ok());
            match (expect, &r) {
                (Some(false), Ok(p)) => cc.violation("C15/prob-checked/accepts-invalid", format!("x={} accepted as Prob({:?})", show(x), p)),
                (Some(true), Err(e)) => cc.violation("C15/prob-checked/rejects-valid", format!("x={} rejected: {}", show(x), e)),
                (Some(true), Ok(p)) if p.to_bits() != x.to_bits() => {
                    cc.violation("C15/prob-checked/value-changed", format!("x={} became {}", show(x), show(*p)))
                }
                _ => {}
            }
        }
    }
}

// ------------------------------------------------------------------------------ case runners

fn check_row(op: &str, p: f64, grid: &[f64], cc: &mut CaseCtx) {
    let mut a = Acc::new();
    for &q in grid {
        if op == "add" {
            chk_add(&mut a, p, q);
        } else if p >= q {
            chk_sub(&mut a, p, q);
        }
    }
    if op == "add" {
        chk_one_minus(&mut a, p);
    }
    a.finish(cc)
}

fn check_lists(prefix: &[f64], h: &[f64], cc: &mut CaseCtx) {
    let mut a = Acc::new();
    let mut xs = prefix.to_vec();
    xs.push(0.0);
    let last = xs.len() - 1;
    for &x in h {
        xs[last] = x;
        chk_list(&mut a, &xs);
    }
    a.finish(cc)
}

fn check_kernel_block(lo: f64, n: u64, block: u64, len: u64, cc: &mut CaseCtx) {
    let mut a = Acc::new();
    let from = block * len;
    for i in from..(from + len).min(n + 1) {
        let d = lo * (i as f64) / (n as f64);
        chk_point(&mut a, d);
    }
    a.finish(cc)
}

fn check_ulp_block(center: f64, from: i64, len: i64, cc: &mut CaseCtx) {
    let mut a = Acc::new();
    for off in from..from + len {
        if let Some(d) = neighbour(center, off) {
            chk_point(&mut a, d);
        }
    }
    a.finish(cc)
}

/// p and every q within `span` ulps below it: exercises the `relative_eq` shortcut of ln_sub_exp
fn check_near_equal(p: f64, span: i64, cc: &mut CaseCtx) {
    let mut a = Acc::new();
    for off in 0..=span {
        if let Some(q) = neighbour(p, -off) {
            chk_sub(&mut a, p, q);
            chk_add(&mut a, p, q);
        }
    }
    a.finish(cc)
}


/// one dominant operand plus `n` operands that are each `d` nats smaller: individually
/// negligible, together `n*e^-d` of the largest operand (kept below 5 % so that the subject's own
/// per-term error stays far inside the bound)
fn check_long_list(big: f64, d: f64, n: usize, cc: &mut CaseCtx) {
    let mut a = Acc::new();
    a.nontrivial = true;
    let mut lps: Vec<LogProb> = Vec::with_capacity(n + 1);
    lps.push(LogProb(big));
    lps.extend(std::iter::repeat(LogProb(big - d)).take(n));
    for pos in [0usize, n / 2, n] {
        // the dominant operand first, in the middle, last
        let mut v = lps.clone();
        v.swap(0, pos);
        match guard(|| *LogProb::ln_sum_exp(&v)) {
            Err(m) => a.fail("ln_sum_exp", "panic", || format!("1 + {} x e^-{}: {}", n, d, m)),
            Ok(r) => {
                a.obs(r);
                let got = (r - big).exp();
                let want = 1.0 + n as f64 * (-d).exp();
                if r.is_nan() {
                    a.fail("ln_sum_exp", "nan", || format!("1 + {} x e^-{} gives NaN", n, d));
                } else if !((got - want).abs() <= TOL) {
                    a.fail("ln_sum_exp", "error-above-bound", || {
                        format!("largest operand {} (at index {}) plus {} operands {} nats below it: relative to the largest operand got {} expected {}", big, pos, n, d, got, want)
                    });
                }
            }
        }
        // the same list through the cumulative sum (a chain of binary additions): every prefix
        // sum is an n-ary sum in its own right; checked at the half-way point and at the end
        match guard(|| LogProb::ln_cumsum_exp(v.iter().cloned()).map(|x| *x).collect::<Vec<f64>>()) {
            Err(m) => a.fail("ln_cumsum_exp", "panic", || format!("1 + {} x e^-{}: {}", n, d, m)),
            Ok(cs) => {
                if cs.len() != v.len() {
                    a.fail("ln_cumsum_exp", "wrong-length", || format!("{} items for {} operands", cs.len(), v.len()));
                } else {
                    for idx in [v.len() / 2, v.len() - 1] {
                        let r = cs[idx];
                        a.obs(r);
                        let small = if pos <= idx { idx } else { idx + 1 };
                        let has_big = pos <= idx;
                        // relative to the largest operand of the whole list (the bound's reference)
                        let want = if has_big { 1.0 } else { 0.0 } + small as f64 * (-d).exp();
                        let got = (r - big).exp();
                        if r.is_nan() {
                            a.fail("ln_cumsum_exp", "nan", || format!("prefix {} of 1 + {} x e^-{} gives NaN", idx + 1, n, d));
                        } else if !((got - want).abs() <= TOL) {
                            a.fail("ln_cumsum_exp", "error-above-bound", || {
                                format!("largest operand {} (at index {}) and {} operands {} nats below it, prefix of {} items: relative to the largest operand got {} expected {}", big, pos, n, d, idx + 1, got, want)
                            });
                        }
                    }
                }
            }
        }
        // and through an explicit fold over ln_add_exp
        match guard(|| *v.iter().fold(LogProb::ln_zero(), |acc, &x| acc.ln_add_exp(x))) {
            Err(m) => a.fail("ln_add_exp", "panic", || format!("fold over 1 + {} x e^-{}: {}", n, d, m)),
            Ok(r) => {
                a.obs(r);
                let got = (r - big).exp();
                let want = 1.0 + n as f64 * (-d).exp();
                if r.is_nan() {
                    a.fail("ln_add_exp", "nan", || format!("fold over 1 + {} x e^-{} gives NaN", n, d));
                } else if !((got - want).abs() <= TOL) {
                    a.fail("ln_add_exp", "error-above-bound", || format!("fold over the list (largest operand {} at index {}, {} operands {} nats below): relative to the largest operand got {} expected {}", big, pos, n, d, got, want));
                }
            }
        }
    }
    a.finish(cc)
}

const LONG_LISTS: &[(f64, usize)] = &[(8.0, 100), (12.0, 2_000), (14.0, 20_000), (16.0, 100_000), (18.0, 1_000_000), (20.0, 3_000_000)];

/// p and q = p*(1+delta) for a ladder of relative distances in LOG space (the shortcut of
/// ln_sub_exp compares the log values, where a tiny relative distance can still be a large
/// ratio of the probabilities when |ln p| is large)
fn check_near_equal_rel(p: f64, cc: &mut CaseCtx) {
    let mut a = Acc::new();
    for e in 1..=12 {
        for m in [1.0, 2.0, 5.0] {
            let delta = m * 10f64.powi(-e);
            let q = p * (1.0 + delta);
            if q <= p && q.is_finite() {
                chk_sub(&mut a, p, q);
                chk_add(&mut a, p, q);
            }
        }
    }
    a.finish(cc)
}

const NEAR_EQUAL_REL_BASES: &[f64] = &[-1e-12, -1e-6, -0.01, -0.5, -1.0, -3.0, -10.0, -30.0, -100.0, -300.0, -499.0, -600.0, -700.0, -744.0, -1000.0, -1e5];

const NEAR_EQUAL_BASES: &[f64] = &[-0.0, -5e-324, -1e-300, -1e-9, -0.001, -0.693, -1.0, -37.0, -100.0, -499.99999999999994, -500.0, -745.0, -1e6];

fn check_empty_sum(cc: &mut CaseCtx) {
    match guard(|| (*LogProb::ln_sum_exp(&[]), LogProb::ln_cumsum_exp(Vec::<LogProb>::new()).count())) {
        Err(m) => cc.violation("C15/ln_sum_exp/panic", format!("empty list: {}", m)),
        Ok((r, n)) => {
            cc.outcome(&r.to_bits());
            if r != NEG_INF {
                cc.violation("C15/ln_sum_exp/zero-not-neutral", format!("empty sum gives {}", show(r)));
            }
            if n != 0 {
                cc.violation("C15/ln_cumsum_exp/length-differs", format!("empty input, {} outputs", n));
            }
        }
    }
}

// ------------------------------------------------------------------------------------- units

const ROW_SHARDS: usize = 6; // add rows and sub rows each
const LIST_SHARDS: usize = 4;
const KERNEL_SHARDS: usize = 16;
const ULP_SHARDS: usize = 16;

fn list_params(tier: Tier) -> (&'static str, usize) {
    tier.pick(("H12", 6), ("H16", 6))
}
fn kernel_points(tier: Tier) -> u64 {
    tier.pick(192_000_000, 3_200_000_000)
}
fn ulp_radius(tier: Tier) -> i64 {
    tier.pick(1 << 17, 1 << 21)
}

fn run_rows(op: &'static str, tier: Tier, shard: usize, ctx: &mut Ctx) {
    let (n, step) = pair_params(tier);
    let grid = pair_grid(n, step);
    for (i, &p) in grid.iter().enumerate() {
        if i % ROW_SHARDS != shard {
            continue;
        }
        ctx.case(
            || json!({"kind": format!("{}-row", op), "p": fv(p), "grid_n": n, "grid_step": fv(step)}),
            |cc| check_row(op, p, &grid, cc),
        );
    }
}

fn run_lists(tier: Tier, shard: usize, ctx: &mut Ctx) {
    let (hname, maxlen) = list_params(tier);
    let h = hset(hname);
    // prefixes of length 0..maxlen-1 over h, shortest first; the last element runs inside the case
    let mut idx = 0usize;
    for plen in 0..maxlen {
        let total = (h.len() as u64).pow(plen as u32);
        for mut k in 0..total {
            idx += 1;
            if idx % LIST_SHARDS != shard {
                continue;
            }
            let mut prefix = vec![0.0; plen];
            for j in (0..plen).rev() {
                prefix[j] = h[(k % h.len() as u64) as usize];
                k /= h.len() as u64;
            }
            ctx.case(
                || json!({"kind": "lists", "prefix": prefix.iter().map(|&x| fv(x)).collect::<Vec<_>>(), "last_over": hname}),
                |cc| check_lists(&prefix, h, cc),
            );
        }
    }
}

fn run_kernel(tier: Tier, shard: usize, ctx: &mut Ctx) {
    let n = kernel_points(tier);
    let lo = -700.0f64;
    let blocks = (n + 1 + BLOCK as u64 - 1) / BLOCK as u64;
    for b in 0..blocks {
        if (b % KERNEL_SHARDS as u64) as usize != shard {
            continue;
        }
        ctx.case(
            || json!({"kind": "kernel-grid", "lo": fv(lo), "n": n, "block": b, "len": BLOCK}),
            |cc| check_kernel_block(lo, n, b, BLOCK as u64, cc),
        );
    }
}

fn run_ulps(tier: Tier, shard: usize, ctx: &mut Ctx) {
    let k = ulp_radius(tier);
    for (i, (what, c)) in switch_points(k).iter().enumerate() {
        if i % ULP_SHARDS != shard {
            continue;
        }
        let mut from = -k;
        while from <= k {
            let len = (BLOCK as i64).min(k - from + 1);
            // blocks that would lie entirely beyond zero are not cases
            if neighbour(*c, from).is_some() || neighbour(*c, from + len - 1).is_some() {
                let (c, f) = (*c, from);
                ctx.case(
                    || json!({"kind": "ulp-block", "what": what, "center": fv(c), "from_ulps_towards_zero": f, "len": len}),
                    |cc| check_ulp_block(c, f, len, cc),
                );
            }
            from += len;
        }
    }
}

fn run_misc(tier: Tier, ctx: &mut Ctx) {
    // integration helpers
    for dens in DENSITIES {
        for (a0, b0) in intervals(dens) {
            for n in integration_ns(tier) {
                for (method, shape) in [("trapezoid", "uniform"), ("simpson", "uniform"), ("grid", "uniform"), ("grid", "quadratic")] {
                    if method == "simpson" && n % 2 == 0 {
                        continue; // documented precondition: n odd
                    }
                    ctx.case(
                        || json!({"kind": "integrate", "method": method, "density": dens, "a": fv(a0), "b": fv(b0), "n": n, "grid": shape}),
                        |cc| check_integration(method, dens, a0, b0, n, shape, false, cc),
                    );
                    if method == "grid" {
                        ctx.case(
                            || json!({"kind": "integrate", "method": method, "density": dens, "a": fv(a0), "b": fv(b0), "n": n, "grid": shape, "by_index": true}),
                            |cc| check_integration(method, dens, a0, b0, n, shape, true, cc),
                        );
                    }
                }
            }
        }
    }
    // conversions
    for p in conversion_probs(tier) {
        ctx.case(|| json!({"kind": "conv", "p": fv(p)}), |cc| check_conversion(p, cc));
    }
    // checked construction
    for (x, _) in checked_values() {
        ctx.case(|| json!({"kind": "checked", "x": fv(x)}), |cc| check_checked(x, cc));
    }
    // near-equal operands of ln_sub_exp
    let span = tier.pick(4096, 65536);
    for &p in NEAR_EQUAL_BASES {
        ctx.case(|| json!({"kind": "near-equal", "p": fv(p), "span_ulps": span}), |cc| check_near_equal(p, span, cc));
    }
    for &p in NEAR_EQUAL_REL_BASES {
        ctx.case(|| json!({"kind": "near-equal-rel", "p": fv(p)}), |cc| check_near_equal_rel(p, cc));
    }
    for &(d, n) in LONG_LISTS {
        for big in [0.0f64, -3.0, -400.0] {
            ctx.case(|| json!({"kind": "long-list", "big": fv(big), "d": fv(d), "n": n}), |cc| check_long_list(big, d, n, cc));
        }
    }
    ctx.case(|| json!({"kind": "empty-sum"}), check_empty_sum);
}

// --------------------------------------------------------------- entry points (appended unit)
//
// Accessors, operator impls and conversions that the clauses above never call.  Each is checked as
// an equivalent route to arithmetic / conversions the module already checks.

/// valid log-probabilities: the coarse pair grid (-inf, 0, -0.05*i, the regime boundaries) and -0.0
fn entry_grid() -> Vec<f64> {
    let mut g = pair_grid(400, 0.05);
    g.push(-0.0);
    g
}

/// values above ln(1) = 0, i.e. not log-probabilities
const POSITIVES: &[f64] = &[5e-324, 1e-300, 1e-17, 1e-12, 1e-9, 1e-6, 0.001, 0.5, 1.0, 2.0, 1e300, f64::INFINITY];

const CAP_EPSILONS: &[f64] = &[0.0, 1e-12, 1e-6, 0.5];

fn same(a: f64, b: f64) -> bool {
    a.to_bits() == b.to_bits() || (a.is_nan() && b.is_nan())
}

/// LogProb::is_valid: exactly the values in [-inf, 0]
fn check_is_valid(cc: &mut CaseCtx) {
    let mut a = Acc::new();
    a.nontrivial = true;
    let mut vals: Vec<(f64, bool)> = entry_grid().into_iter().map(|x| (x, true)).collect();
    vals.extend(POSITIVES.iter().map(|&x| (x, false)));
    vals.push((f64::NAN, false));
    for (x, want) in vals {
        match guard(|| LogProb(x).is_valid()) {
            Err(m) => a.fail("is_valid", "panic", || format!("x={}: {}", show(x), m)),
            Ok(got) => {
                a.obs(got as u8 as f64);
                if got && !want {
                    a.fail("is_valid", "accepts-invalid", || format!("x={} is not in [-inf, 0] but is_valid() is true", show(x)));
                } else if !got && want {
                    a.fail("is_valid", "rejects-valid", || format!("x={} is in [-inf, 0] but is_valid() is false", show(x)));
                }
            }
        }
    }
    a.finish(cc)
}

/// cap_numerical_overshoot(eps): values <= 0 unchanged; 0 < x <= eps becomes ln(1); x > eps panics
fn check_cap(eps: f64, cc: &mut CaseCtx) {
    let mut a = Acc::new();
    a.nontrivial = eps > 0.0;
    for x in entry_grid() {
        match guard(|| *LogProb(x).cap_numerical_overshoot(eps)) {
            Err(m) => a.fail("cap_numerical_overshoot", "panic-on-valid-value", || format!("x={} eps={}: {}", show(x), eps, m)),
            Ok(r) => {
                a.obs(r);
                if r.to_bits() != x.to_bits() {
                    a.fail("cap_numerical_overshoot", "valid-value-changed", || format!("x={} eps={} became {}", show(x), eps, show(r)));
                }
            }
        }
    }
    let mut over: Vec<f64> = POSITIVES.to_vec();
    if eps > 0.0 {
        over.extend([eps / 2.0, eps, f64::from_bits(eps.to_bits() + 1), f64::from_bits(eps.to_bits() - 1), eps * 2.0, eps + 1.0]);
    }
    over.sort_by(|x, y| x.partial_cmp(y).unwrap());
    over.dedup_by_key(|x| x.to_bits());
    for x in over {
        let r = guard(|| *LogProb(x).cap_numerical_overshoot(eps));
        if x <= eps {
            match r {
                Err(m) => a.fail("cap_numerical_overshoot", "panic-within-epsilon", || format!("x={} eps={}: {}", show(x), eps, m)),
                Ok(r) => {
                    a.obs(r);
                    if r != 0.0 {
                        a.fail("cap_numerical_overshoot", "not-capped-to-ln-one", || format!("x={} eps={} became {}", show(x), eps, show(r)));
                    }
                }
            }
        } else if let Ok(r) = r {
            a.obs(r);
            a.fail("cap_numerical_overshoot", "overshoot-beyond-epsilon-accepted", || format!("x={} exceeds eps={} but {} was returned instead of a panic", show(x), eps, show(r)));
        }
    }
    a.finish(cc)
}

/// iter::Sum for LogProb (by value and by reference): the sum of the log values, i.e. the product
/// of the probabilities; the empty product is ln(1)
fn check_sum_impls(prefix: &[f64], h: &[f64], with_empty: bool, cc: &mut CaseCtx) {
    let mut a = Acc::new();
    let mut lists: Vec<Vec<f64>> = h.iter().map(|&x| prefix.iter().cloned().chain(std::iter::once(x)).collect()).collect();
    if with_empty {
        lists.push(vec![]);
    }
    for xs in lists {
        let lps: Vec<LogProb> = xs.iter().map(|&x| LogProb(x)).collect();
        let want: f64 = xs.iter().fold(0.0, |s, &x| s + x);
        if xs.len() >= 2 && want > NEG_INF {
            a.nontrivial = true;
        }
        let by_val = guard(|| *lps.iter().cloned().sum::<LogProb>());
        let by_ref = guard(|| *lps.iter().sum::<LogProb>());
        for (op, r) in [("sum-by-value", by_val), ("sum-by-reference", by_ref)] {
            match r {
                Err(m) => a.fail(op, "panic", || format!("{:?}: {}", xs, m)),
                Ok(r) => {
                    a.obs(r);
                    let ok = r == want || (r - want).abs() <= EXACT_REL * want.abs().max(1.0);
                    if !ok {
                        a.fail(op, "differs-from-sum-of-logs", || format!("{:?}: got {} expected {} (product of the probabilities)", xs, show(r), show(want)));
                    }
                }
            }
        }
    }
    a.finish(cc)
}

/// `a += q` / `a -= q` against `a + q` / `a - q`, and those against plain f64 arithmetic on the logs
fn check_assign_ops(p: f64, grid: &[f64], cc: &mut CaseCtx) {
    let mut a = Acc::new();
    a.nontrivial = p > NEG_INF;
    for &q in grid {
        let r = guard(|| {
            let (lp, lq) = (LogProb(p), LogProb(q));
            let mut x = lp;
            x += lq;
            let mut y = lp;
            y -= lq;
            (*x, *(lp + lq), *y, *(lp - lq))
        });
        match r {
            Err(m) => a.fail("assign-ops", "panic", || format!("p={} q={}: {}", show(p), show(q), m)),
            Ok((x, add, y, sub)) => {
                a.obs(x);
                a.obs(y);
                if !same(add, p + q) {
                    a.fail("add-operator", "differs-from-f64-sum-of-logs", || format!("p={} q={}: p + q = {}", show(p), show(q), show(add)));
                }
                if !same(sub, p - q) {
                    a.fail("sub-operator", "differs-from-f64-difference-of-logs", || format!("p={} q={}: p - q = {}", show(p), show(q), show(sub)));
                }
                if !same(x, add) {
                    a.fail("add-assign", "differs-from-add", || format!("p={} q={}: += gives {} but + gives {}", show(p), show(q), show(x), show(add)));
                }
                if !same(y, sub) {
                    a.fail("sub-assign", "differs-from-sub", || format!("p={} q={}: -= gives {} but - gives {}", show(p), show(q), show(y), show(sub)));
                }
            }
        }
    }
    a.finish(cc)
}

/// LogProb <-> ordered_float::NotNan<f64>: value-preserving both ways, NaN refused
fn check_notnan(cc: &mut CaseCtx) {
    let mut a = Acc::new();
    a.nontrivial = true;
    let mut vals = entry_grid();
    vals.extend_from_slice(POSITIVES);
    for x in vals {
        let r = guard(|| {
            let n = NotNan::new(x).expect("grid value is not NaN");
            let lp = LogProb::from(n);
            let back = NotNan::<f64>::try_from(LogProb(x)).map(|n| n.into_inner());
            (*lp, back.ok())
        });
        match r {
            Err(m) => a.fail("conv/notnan", "panic", || format!("x={}: {}", show(x), m)),
            Ok((lp, back)) => {
                a.obs(lp);
                if lp.to_bits() != x.to_bits() {
                    a.fail("conv/notnan-to-logprob", "value-changed", || format!("NotNan({}) became LogProb({})", show(x), show(lp)));
                }
                match back {
                    None => a.fail("conv/logprob-to-notnan", "rejects-number", || format!("LogProb({}) refused", show(x))),
                    Some(b) => {
                        if b.to_bits() != x.to_bits() {
                            a.fail("conv/logprob-to-notnan", "value-changed", || format!("LogProb({}) became NotNan({})", show(x), show(b)));
                        }
                    }
                }
            }
        }
    }
    match guard(|| NotNan::<f64>::try_from(LogProb(f64::NAN)).is_ok()) {
        Err(m) => a.fail("conv/logprob-to-notnan", "panic", || format!("NaN: {}", m)),
        Ok(true) => a.fail("conv/logprob-to-notnan", "accepts-nan", || "LogProb(NaN) converted to a NotNan".to_string()),
        Ok(false) => {}
    }
    a.finish(cc)
}

/// Default and num_traits::Zero of the three scales all denote probability 0, consistently across
/// the conversions; is_zero is true exactly for probability 0
fn check_default_zero(cc: &mut CaseCtx) {
    let mut a = Acc::new();
    a.nontrivial = true;
    let r = guard(|| {
        (
            *Prob::default(), *LogProb::default(), *PHREDProb::default(),
            *<Prob as Zero>::zero(), *<LogProb as Zero>::zero(), *<PHREDProb as Zero>::zero(),
            <Prob as Zero>::zero().is_zero(), <LogProb as Zero>::zero().is_zero(), <PHREDProb as Zero>::zero().is_zero(),
        )
    });
    match r {
        Err(m) => a.fail("default-zero", "panic", || m),
        Ok((dp, dl, dph, zp, zl, zph, izp, izl, izph)) => {
            for x in [dp, dl, dph, zp, zl, zph] {
                a.obs(x);
            }
            // probability 0 in each scale, obtained through the conversions checked by the "conv" cases
            let l0 = *LogProb::from(Prob(0.0));
            let ph0 = *PHREDProb::from(Prob(0.0));
            for (what, got, want) in [
                ("default/prob", dp, 0.0), ("default/logprob", dl, l0), ("default/phred", dph, ph0),
                ("zero/prob", zp, 0.0), ("zero/logprob", zl, l0), ("zero/phred", zph, ph0),
            ] {
                if !same(got, want) && !(got == want) {
                    a.fail(what, "not-probability-zero", || format!("got {} but probability 0 is {} on this scale", show(got), show(want)));
                }
            }
            if !same(dl, *LogProb::ln_zero()) {
                a.fail("default/logprob", "not-probability-zero", || format!("LogProb::default() = {} but ln_zero() = {}", show(dl), show(*LogProb::ln_zero())));
            }
            for (what, got) in [("zero/prob", izp), ("zero/logprob", izl), ("zero/phred", izph)] {
                if !got {
                    a.fail(what, "zero-is-not-zero", || "zero().is_zero() is false".to_string());
                }
            }
        }
    }
    // is_zero over the conversion grid: true exactly for p == 0, on every scale
    for p in conversion_probs(Tier::Quick) {
        let r = guard(|| {
            let pr = Prob(p);
            (pr.is_zero(), LogProb::from(pr).is_zero(), PHREDProb::from(pr).is_zero(), *(pr + Prob::zero()))
        });
        match r {
            Err(m) => a.fail("zero/is_zero", "panic", || format!("p={}: {}", show(p), m)),
            Ok((ip, il, iph, sum)) => {
                a.obs((ip as u8 + 2 * il as u8 + 4 * iph as u8) as f64);
                let want = p == 0.0;
                for (what, got) in [("zero/prob", ip), ("zero/logprob", il), ("zero/phred", iph)] {
                    if got != want {
                        a.fail(what, if got { "is_zero-true-for-positive-probability" } else { "is_zero-false-for-probability-zero" }, || format!("p={}: is_zero() = {}", show(p), got));
                    }
                }
                if !(sum == p) {
                    a.fail("zero/prob", "not-neutral-for-addition", || format!("p={}: p + zero() = {}", show(p), show(sum)));
                }
            }
        }
    }
    a.finish(cc)
}

const ENTRY_SUM_MAXLEN: usize = 3;

fn run_entry(ctx: &mut Ctx) {
    ctx.case(|| json!({"kind": "entry", "what": "is_valid"}), check_is_valid);
    for &eps in CAP_EPSILONS {
        ctx.case(|| json!({"kind": "entry", "what": "cap", "eps": fv(eps)}), |cc| check_cap(eps, cc));
    }
    // every list of length 0..=3 over H12: one case = one prefix with every last element
    for plen in 0..ENTRY_SUM_MAXLEN {
        let total = (H12.len() as u64).pow(plen as u32);
        for mut k in 0..total {
            let mut prefix = vec![0.0; plen];
            for j in (0..plen).rev() {
                prefix[j] = H12[(k % H12.len() as u64) as usize];
                k /= H12.len() as u64;
            }
            ctx.case(
                || json!({"kind": "entry", "what": "sum", "prefix": prefix.iter().map(|&x| fv(x)).collect::<Vec<_>>()}),
                |cc| check_sum_impls(&prefix, H12, plen == 0, cc),
            );
        }
    }
    let grid = entry_grid();
    for &p in &grid {
        ctx.case(|| json!({"kind": "entry", "what": "assign", "p": fv(p)}), |cc| check_assign_ops(p, &grid, cc));
    }
    ctx.case(|| json!({"kind": "entry", "what": "notnan"}), check_notnan);
    ctx.case(|| json!({"kind": "entry", "what": "default-zero"}), check_default_zero);
}

fn unit_names() -> Vec<String> {
    let mut v = vec![];
    v.extend((0..ROW_SHARDS).map(|i| format!("add-rows-{}", i)));
    v.extend((0..ROW_SHARDS).map(|i| format!("sub-rows-{}", i)));
    v.extend((0..LIST_SHARDS).map(|i| format!("lists-{}", i)));
    v.extend((0..KERNEL_SHARDS).map(|i| format!("kernel-grid-{}", i)));
    v.extend((0..ULP_SHARDS).map(|i| format!("ulp-neighbourhoods-{}", i)));
    v.push("integration-conversions-checked".into());
    v.push("entry-points".into());
    v
}

impl Prop for C15Prop {
    fn id(&self) -> &'static str {
        "C15"
    }
    fn level(&self) -> &'static str {
        "exploration"
    }
    fn rule(&self) -> &'static str {
        "The statement is over a continuum; decided is its restriction to finite grids plus bit-exhaustive neighbourhoods of the formula switch points (exhaustive refers to these sets). Enumerated once each: (a) every ordered pair of the operand grid G for ln_add_exp, every pair with p >= q for ln_sub_exp, every element for ln_one_minus_exp (one case = one first operand against all second operands); (b) every list of length 1..L over the operand set H for ln_sum_exp and ln_cumsum_exp (one case = one prefix with every last element) and the empty list; (c) the one-variable kernels d -> add(0,d), add(d,0), sum[d,0], sub(0,d), one_minus(d), Prob::from(LogProb(d)) on an equidistant grid over [-700,0] (one case = 4096 consecutive points) and on EVERY f64 within +-K ulps of each switch point: -500 (fast-exp cut-off), -0.693 (ln_1m_exp branch), ln 1/2, -0, the f64 underflow of exp, the point where 1+e^d rounds to 1, and all 721 arguments where d*log2(e) crosses an integer (one case = 4096 consecutive floats); (d) p against the floats up to span ulps below it for ln_sub_exp/ln_add_exp (relative_eq shortcut); (e) trapezoid / Simpson / grid-trapezoid helpers for six densities x intervals x n; (f) Prob<->LogProb<->PHRED conversions on p = i/1000 and 10^-j (j <= 323); (g) Prob::checked on boundary values. Non-trivial: at least one evaluation of the case has a second operand strictly between e^-500 and 1 times the largest operand, i.e. the approximate exponential contributes a non-zero term (conversions: 0 < p < 1; checked: the value must be rejected). (h) entry points (appended unit): LogProb::is_valid on the coarse grid, positive values and NaN; cap_numerical_overshoot for four epsilons on the coarse grid and a ladder of positive values around epsilon; iter::Sum (by value and by reference) on every list of length 0..=3 over H12; += / -= / + / - on every ordered pair of the coarse grid (one case = one first operand); LogProb <-> NotNan<f64>; Default and num_traits::Zero of Prob / LogProb / PHREDProb with is_zero over the conversion probabilities."
    }
    fn assumptions(&self) -> Vec<&'static str> {
        vec![
            "restriction of a statement over real intervals to finite grids plus bit-exhaustive neighbourhoods of the switch points of the piecewise formulas; nothing is claimed about operands outside these sets",
            "oracle: the same computation in linear f64 (libm exp/ln), compared in shifted form relative to the largest operand: |e^(r-max) - sum e^(x-max)| <= 0.005, which cannot underflow",
            "ln(0) = -inf is the neutral element: adding it must leave the other operand unchanged within the same bound, sums of zeros must be exactly -inf; NaN is never acceptable",
            "ln_sub_exp is only called with p >= q (p < q is a documented assertion failure)",
            "integration helpers are compared with the identical quadrature formula evaluated in linear space at the same nodes, not with the true integral; ln_trapezoidal_integrate_grid_exp composes two approximate operations and is allowed 0.5 % of the sum plus 0.5 % of the largest segment",
            "conversions that do not involve the approximate exponential must agree within 1e-9 relative (= 1e-9 absolute in natural-log units); Prob::from(LogProb) is allowed 0.5 % relative",
            "Prob::checked: values inside [0,1] must be accepted unchanged, values outside and NaN rejected; -0.0 may go either way",
            "log-space operands are restricted to |ln p| <= 1e6 (plus -inf): for much larger magnitudes the spacing of f64 exceeds ln(1.005) and no representable result can satisfy the bound, whatever the implementation",
            "subject built with overflow checks and debug assertions on, as in the pinned test profile",
            "entry points: is_valid means 'in [-inf, 0]'; cap_numerical_overshoot(eps) leaves values <= 0 unchanged, maps (0, eps] to ln 1 and panics above eps (its own panic message states this contract); Sum for LogProb adds the log values (a product of probabilities, empty product ln 1); the operators + - += -= are plain f64 arithmetic on the log values; Default and Zero::zero of each scale denote probability 0 and is_zero is true exactly for probability 0 (the num_traits law x + zero == x is only demanded for Prob, whose + is addition of probabilities)",
        ]
    }
    fn bounds(&self, tier: Tier) -> Value {
        let (n, step) = pair_params(tier);
        let (hname, maxlen) = list_params(tier);
        json!({
            "pair_grid": {"values": pair_grid(n, step).len(), "equidistant": format!("-{}*i, i<{}", step, n), "extras": EXTRAS.len(), "plus": "-inf"},
            "lists": {"operands": hname, "operand_count": hset(hname).len(), "max_len": maxlen},
            "kernel_grid": {"interval": "[-700,0]", "points": kernel_points(tier) + 1, "points_per_case": BLOCK},
            "ulp_neighbourhoods": {"switch_points": switch_points(ulp_radius(tier)).len(), "radius_ulps": ulp_radius(tier), "floats_per_case": BLOCK},
            "near_equal": {"bases": NEAR_EQUAL_BASES.len(), "span_ulps": tier.pick(4096, 65536)},
            "integration": {"densities": DENSITIES, "n": integration_ns(tier), "methods": ["trapezoid", "simpson (odd n)", "grid uniform", "grid quadratic"]},
            "conversions": {"probabilities": conversion_probs(tier).len()},
            "checked": checked_values().len(),
            "entry_points": {"coarse_grid": entry_grid().len(), "positive_values": POSITIVES.len(), "cap_epsilons": CAP_EPSILONS, "sum_lists": format!("length 0..={} over H12", ENTRY_SUM_MAXLEN)},
            "tolerance": {"approximate": TOL, "exact_paths": EXACT_REL},
        })
    }
    fn units(&self, _tier: Tier) -> Vec<String> {
        unit_names()
    }
    fn run_unit(&self, tier: Tier, unit: usize, ctx: &mut Ctx) {
        let mut u = unit;
        if u < ROW_SHARDS {
            return run_rows("add", tier, u, ctx);
        }
        u -= ROW_SHARDS;
        if u < ROW_SHARDS {
            return run_rows("sub", tier, u, ctx);
        }
        u -= ROW_SHARDS;
        if u < LIST_SHARDS {
            return run_lists(tier, u, ctx);
        }
        u -= LIST_SHARDS;
        if u < KERNEL_SHARDS {
            return run_kernel(tier, u, ctx);
        }
        u -= KERNEL_SHARDS;
        if u < ULP_SHARDS {
            return run_ulps(tier, u, ctx);
        }
        u -= ULP_SHARDS;
        match u {
            0 => run_misc(tier, ctx),
            1 => run_entry(ctx),
            _ => {}
        }
    }
    fn replay(&self, case: &Value, ctx: &mut Ctx) {
        let kind = case["kind"].as_str().unwrap_or("").to_string();
        let bad = |ctx: &mut Ctx| {
            ctx.case(|| case.clone(), |cc| cc.violation("C15/replay/malformed-case", "case description cannot be decoded"))
        };
        match kind.as_str() {
            "add-row" | "sub-row" => {
                let (p, n, step) = match (unfv(&case["p"]), case["grid_n"].as_u64(), unfv(&case["grid_step"])) {
                    (Some(p), Some(n), Some(s)) => (p, n as usize, s),
                    _ => return bad(ctx),
                };
                let grid = pair_grid(n, step);
                let op = if kind == "add-row" { "add" } else { "sub" };
                ctx.case(|| case.clone(), |cc| check_row(op, p, &grid, cc));
            }
            "lists" => {
                let prefix: Option<Vec<f64>> = case["prefix"].as_array().map(|a| a.iter().filter_map(unfv).collect());
                let h = hset(case["last_over"].as_str().unwrap_or("H12"));
                match prefix {
                    Some(p) => ctx.case(|| case.clone(), |cc| check_lists(&p, h, cc)),
                    None => bad(ctx),
                }
            }
            "kernel-grid" => match (unfv(&case["lo"]), case["n"].as_u64(), case["block"].as_u64(), case["len"].as_u64()) {
                (Some(lo), Some(n), Some(b), Some(len)) => ctx.case(|| case.clone(), |cc| check_kernel_block(lo, n, b, len, cc)),
                _ => bad(ctx),
            },
            "ulp-block" => match (unfv(&case["center"]), case["from_ulps_towards_zero"].as_i64(), case["len"].as_i64()) {
                (Some(c), Some(f), Some(len)) => ctx.case(|| case.clone(), |cc| check_ulp_block(c, f, len, cc)),
                _ => bad(ctx),
            },
            "long-list" => match (unfv(&case["big"]), unfv(&case["d"]), case["n"].as_u64()) {
                (Some(big), Some(d), Some(n)) => ctx.case(|| case.clone(), |cc| check_long_list(big, d, n as usize, cc)),
                _ => bad(ctx),
            },
            "near-equal-rel" => match unfv(&case["p"]) {
                Some(p) => ctx.case(|| case.clone(), |cc| check_near_equal_rel(p, cc)),
                _ => bad(ctx),
            },
            "near-equal" => match (unfv(&case["p"]), case["span_ulps"].as_i64()) {
                (Some(p), Some(s)) => ctx.case(|| case.clone(), |cc| check_near_equal(p, s, cc)),
                _ => bad(ctx),
            },
            "integrate" => {
                let method = case["method"].as_str().unwrap_or("").to_string();
                let dens = case["density"].as_str().unwrap_or("").to_string();
                let shape = case["grid"].as_str().unwrap_or("uniform").to_string();
                match (unfv(&case["a"]), unfv(&case["b"]), case["n"].as_u64()) {
                    (Some(a0), Some(b0), Some(n)) if n >= 2 => {
                        let by_index = case["by_index"].as_bool().unwrap_or(false);
                        ctx.case(|| case.clone(), |cc| check_integration(&method, &dens, a0, b0, n as usize, &shape, by_index, cc))
                    }
                    _ => bad(ctx),
                }
            }
            "conv" => match unfv(&case["p"]) {
                Some(p) => ctx.case(|| case.clone(), |cc| check_conversion(p, cc)),
                None => bad(ctx),
            },
            "checked" => match unfv(&case["x"]) {
                Some(x) => ctx.case(|| case.clone(), |cc| check_checked(x, cc)),
                None => bad(ctx),
            },
            "empty-sum" => ctx.case(|| case.clone(), check_empty_sum),
            "entry" => match case["what"].as_str().unwrap_or("") {
                "is_valid" => ctx.case(|| case.clone(), check_is_valid),
                "cap" => match unfv(&case["eps"]) {
                    Some(e) if e >= 0.0 => ctx.case(|| case.clone(), |cc| check_cap(e, cc)),
                    _ => bad(ctx),
                },
                "sum" => {
                    let prefix: Option<Vec<f64>> = case["prefix"].as_array().map(|a| a.iter().filter_map(unfv).collect());
                    match prefix {
                        Some(p) => ctx.case(|| case.clone(), |cc| check_sum_impls(&p, H12, p.is_empty(), cc)),
                        None => bad(ctx),
                    }
                }
                "assign" => match unfv(&case["p"]) {
                    Some(p) => {
                        let grid = entry_grid();
                        ctx.case(|| case.clone(), |cc| check_assign_ops(p, &grid, cc))
                    }
                    None => bad(ctx),
                },
                "notnan" => ctx.case(|| case.clone(), check_notnan),
                "default-zero" => ctx.case(|| case.clone(), check_default_zero),
                _ => bad(ctx),
            },
            _ => bad(ctx),
        }
    }
}
