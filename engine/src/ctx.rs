//! Per-unit execution context: counts cases, catches panics, collects violations, outcomes and
//! samples, and (in pinpoint mode) announces each case before it runs so that a worker that
//! hangs or dies can be attributed to one concrete case by the driver.

use serde::{Deserialize, Serialize};
use serde_json::Value;
use std::cell::RefCell;
use std::collections::{BTreeMap, HashSet};
use std::hash::{Hash, Hasher};
use std::io::Write;
use std::os::unix::fs::FileExt;
use std::panic::{catch_unwind, AssertUnwindSafe};
use std::sync::atomic::{AtomicU64, Ordering};
use std::time::Instant;

#[derive(Clone, Copy, Debug, PartialEq, Eq, Serialize, Deserialize)]
pub enum Tier {
    Quick,
    Thorough,
}

impl Tier {
    pub fn name(self) -> &'static str {
        match self {
            Tier::Quick => "quick",
            Tier::Thorough => "thorough",
        }
    }
    pub fn parse(s: &str) -> Option<Tier> {
        match s {
            "quick" => Some(Tier::Quick),
            "thorough" => Some(Tier::Thorough),
            _ => None,
        }
    }
    /// pick by tier
    pub fn pick<T>(self, quick: T, thorough: T) -> T {
        match self {
            Tier::Quick => quick,
            Tier::Thorough => thorough,
        }
    }
}

/// Progress counter read by the watchdog thread of a worker.
pub static PROGRESS: AtomicU64 = AtomicU64::new(0);

thread_local! {
    static LAST_PANIC: RefCell<Option<String>> = RefCell::new(None);
}

/// Install a panic hook that records message + location instead of printing.
pub fn install_panic_hook() {
    std::panic::set_hook(Box::new(|info| {
        let msg = if let Some(s) = info.payload().downcast_ref::<&str>() {
            s.to_string()
        } else if let Some(s) = info.payload().downcast_ref::<String>() {
            s.clone()
        } else {
            "<non-string panic payload>".to_string()
        };
        let loc = info
            .location()
            .map(|l| format!("{}:{}", l.file(), l.line()))
            .unwrap_or_default();
        LAST_PANIC.with(|p| *p.borrow_mut() = Some(format!("{} @ {}", msg, loc)));
    }));
}

pub fn take_panic_message() -> String {
    LAST_PANIC
        .with(|p| p.borrow_mut().take())
        .unwrap_or_else(|| "<unknown panic>".to_string())
}

/// Run `f`, converting a panic into Err(message @ file:line).
pub fn guard<T>(f: impl FnOnce() -> T) -> Result<T, String> {
    match catch_unwind(AssertUnwindSafe(f)) {
        Ok(v) => Ok(v),
        Err(_) => Err(take_panic_message()),
    }
}

#[derive(Clone, Debug, Serialize, Deserialize)]
pub struct Violation {
    /// finding key: `<prop>/<input class>/<symptom>`; matched against known_findings.txt
    pub key: String,
    /// replayable description of the case
    pub case: Value,
    /// observed vs expected, free text
    pub detail: String,
}

#[derive(Clone, Debug, Default, Serialize, Deserialize)]
pub struct KeyBucket {
    pub count: u64,
    pub examples: Vec<Violation>,
}

#[derive(Clone, Debug, Default, Serialize, Deserialize)]
pub struct UnitResult {
    pub unit: usize,
    pub name: String,
    pub cases: u64,
    pub nontrivial: u64,
    pub outcomes: Vec<u64>,
    pub outcomes_saturated: bool,
    pub states: u64,
    pub transitions: u64,
    pub traces: u64,
    pub capped: bool,
    pub skipped_after_cap: u64,
    pub violations: BTreeMap<String, KeyBucket>,
    pub samples: Vec<Value>,
    pub extra: BTreeMap<String, u64>,
    pub wall_s: f64,
}

const MAX_OUTCOMES_PER_UNIT: usize = 200_000;
const EXAMPLES_PER_KEY: usize = 3;

pub struct Ctx {
    pub tier: Tier,
    pub prop: &'static str,
    pub res: UnitResult,
    outcomes: HashSet<u64>,
    pin: Option<std::fs::File>,
    skip: HashSet<String>,
    deadline: Option<Instant>,
    start: Instant,
    next_sample_at: u64,
    /// maps (case, panic message) to a finding key; props may replace it
    pub panic_key: fn(&Value, &str) -> String,
    /// when replaying a single case: collect verbose detail
    pub replaying: bool,
}

fn default_panic_key(_case: &Value, msg: &str) -> String {
    // strip line numbers so that the key survives unrelated edits; keep file + message head
    let (m, loc) = match msg.rsplit_once(" @ ") {
        Some((m, l)) => (m, l),
        None => (msg, ""),
    };
    let file = loc.rsplit_once(':').map(|x| x.0).unwrap_or(loc);
    let file = file.rsplit('/').next().unwrap_or(file);
    let head: String = m
        .chars()
        .map(|c| if c.is_ascii_digit() { '#' } else { c })
        .take(48)
        .collect();
    format!("panic/{}/{}", file, head)
}

pub struct CaseCtx<'a> {
    nontrivial: bool,
    outcome: Option<u64>,
    viol: Vec<(String, String, Option<Value>)>,
    pub replaying: bool,
    pub tier: Tier,
    states: u64,
    transitions: u64,
    traces: u64,
    extra: Vec<(&'a str, u64)>,
}

impl<'a> CaseCtx<'a> {
    pub fn nontrivial(&mut self) {
        self.nontrivial = true;
    }
    pub fn set_nontrivial(&mut self, b: bool) {
        if b {
            self.nontrivial = true;
        }
    }
    /// fold an observation into the outcome hash of this case
    pub fn outcome<H: Hash>(&mut self, h: &H) {
        let mut s = std::collections::hash_map::DefaultHasher::new();
        self.outcome.unwrap_or(0).hash(&mut s);
        h.hash(&mut s);
        self.outcome = Some(s.finish());
    }
    pub fn violation(&mut self, key: impl Into<String>, detail: impl Into<String>) {
        self.viol.push((key.into(), detail.into(), None));
    }
    /// like `violation`, but the replayable case description differs from the description of the
    /// enclosing case (e.g. a violation that only shows after a history of earlier calls)
    pub fn violation_with_case(
        &mut self,
        key: impl Into<String>,
        detail: impl Into<String>,
        case: Value,
    ) {
        self.viol.push((key.into(), detail.into(), Some(case)));
    }
    pub fn has_violation(&self) -> bool {
        !self.viol.is_empty()
    }
    pub fn add_states(&mut self, n: u64) {
        self.states += n;
    }
    pub fn add_transitions(&mut self, n: u64) {
        self.transitions += n;
    }
    pub fn add_traces(&mut self, n: u64) {
        self.traces += n;
    }
    pub fn count(&mut self, name: &'a str, n: u64) {
        self.extra.push((name, n));
    }
}

impl Ctx {
    pub fn new(
        prop: &'static str,
        tier: Tier,
        unit: usize,
        name: String,
        pin: Option<std::fs::File>,
        skip: HashSet<String>,
        deadline: Option<Instant>,
    ) -> Ctx {
        Ctx {
            tier,
            prop,
            res: UnitResult {
                unit,
                name,
                ..Default::default()
            },
            outcomes: HashSet::new(),
            pin,
            skip,
            deadline,
            start: Instant::now(),
            next_sample_at: 1,
            panic_key: default_panic_key,
            replaying: false,
        }
    }

    fn announce(&mut self, text: &str) {
        if let Some(f) = &self.pin {
            let b = text.as_bytes();
            let mut buf = Vec::with_capacity(b.len() + 8);
            buf.extend_from_slice(&(b.len() as u64).to_le_bytes());
            buf.extend_from_slice(b);
            let _ = f.write_all_at(&buf, 0);
        }
    }

    pub fn expired(&self) -> bool {
        match self.deadline {
            Some(d) => Instant::now() >= d,
            None => false,
        }
    }

    /// Execute one case.  `desc` renders the replayable description (evaluated lazily: in pinpoint
    /// mode, for samples, and when a violation or panic occurs).
    pub fn case<D, F>(&mut self, desc: D, f: F)
    where
        D: Fn() -> Value,
        F: FnOnce(&mut CaseCtx),
    {
        if self.res.capped {
            self.res.skipped_after_cap += 1;
            return;
        }
        // cheap deadline poll
        if self.res.cases & 0x3ff == 0 && self.expired() {
            self.res.capped = true;
            self.res.skipped_after_cap += 1;
            return;
        }
        PROGRESS.fetch_add(1, Ordering::Relaxed);
        self.res.cases += 1;
        let mut rendered: Option<Value> = None;
        if self.pin.is_some() || !self.skip.is_empty() {
            let v = desc();
            let text = v.to_string();
            if self.skip.contains(&text) {
                // this case made an earlier worker hang/die; it is already recorded by the driver
                return;
            }
            self.announce(&text);
            rendered = Some(v);
        }
        let mut cc = CaseCtx {
            nontrivial: false,
            outcome: None,
            viol: Vec::new(),
            replaying: self.replaying,
            tier: self.tier,
            states: 0,
            transitions: 0,
            traces: 0,
            extra: Vec::new(),
        };
        let r = catch_unwind(AssertUnwindSafe(|| f(&mut cc)));
        if r.is_err() {
            let msg = take_panic_message();
            let v = rendered.get_or_insert_with(&desc).clone();
            let key = (self.panic_key)(&v, &msg);
            cc.viol.push((
                format!("{}/{}", self.prop, key),
                format!("panic: {}", msg),
                None,
            ));
        }
        if cc.nontrivial {
            self.res.nontrivial += 1;
        }
        self.res.states += cc.states;
        self.res.transitions += cc.transitions;
        self.res.traces += cc.traces;
        for (k, n) in cc.extra.drain(..) {
            *self.res.extra.entry(k.to_string()).or_insert(0) += n;
        }
        if let Some(h) = cc.outcome {
            if self.outcomes.len() < MAX_OUTCOMES_PER_UNIT {
                self.outcomes.insert(h);
            } else {
                self.res.outcomes_saturated = true;
            }
        }
        if self.res.cases == self.next_sample_at && self.res.samples.len() < 6 {
            let v = rendered.get_or_insert_with(&desc).clone();
            self.res.samples.push(v);
            self.next_sample_at = self.next_sample_at.saturating_mul(16);
        }
        if !cc.viol.is_empty() {
            let v = rendered.get_or_insert_with(&desc).clone();
            let mut seen_keys: Vec<String> = Vec::new();
            for (key, detail, own_case) in cc.viol.drain(..) {
                // one count per key per case
                if seen_keys.contains(&key) {
                    continue;
                }
                seen_keys.push(key.clone());
                let b = self.res.violations.entry(key.clone()).or_default();
                b.count += 1;
                if b.examples.len() < EXAMPLES_PER_KEY {
                    b.examples.push(Violation {
                        key,
                        case: own_case.unwrap_or_else(|| v.clone()),
                        detail,
                    });
                }
            }
        }
    }

    /// Record a violation that was established outside `case` (e.g. by a forked child).
    pub fn record_violation(&mut self, key: String, case: Value, detail: String) {
        let b = self.res.violations.entry(key.clone()).or_default();
        b.count += 1;
        if b.examples.len() < EXAMPLES_PER_KEY {
            b.examples.push(Violation { key, case, detail });
        }
    }

    pub fn finish(mut self) -> UnitResult {
        self.res.outcomes = self.outcomes.into_iter().collect();
        self.res.wall_s = self.start.elapsed().as_secs_f64();
        self.res
    }
}

pub fn hash_of<H: Hash>(h: &H) -> u64 {
    let mut s = std::collections::hash_map::DefaultHasher::new();
    h.hash(&mut s);
    s.finish()
}

pub fn emit_result(res: &UnitResult) {
    let out = std::io::stdout();
    let mut l = out.lock();
    let _ = writeln!(l, "RESULT {}", serde_json::to_string(res).unwrap());
    let _ = l.flush();
}

/// printable rendering of a byte string for case descriptions: ASCII graphic bytes as they are,
/// everything else as \xNN.  `unshow` inverts it.
pub fn show(b: &[u8]) -> String {
    let mut s = String::with_capacity(b.len());
    for &c in b {
        if (c.is_ascii_graphic() || c == b' ') && c != b'\\' {
            s.push(c as char);
        } else {
            s.push_str(&format!("\\x{:02x}", c));
        }
    }
    s
}

pub fn unshow(s: &str) -> Vec<u8> {
    let b = s.as_bytes();
    let mut out = Vec::with_capacity(b.len());
    let mut i = 0;
    while i < b.len() {
        if b[i] == b'\\' && i + 3 < b.len() && b[i + 1] == b'x' {
            let h = std::str::from_utf8(&b[i + 2..i + 4]).unwrap();
            out.push(u8::from_str_radix(h, 16).unwrap());
            i += 4;
        } else {
            out.push(b[i]);
            i += 1;
        }
    }
    out
}
