//! Driver: shards a property's units over worker processes, attributes worker deaths to single
//! cases (pinpoint re-runs), merges results, applies the known-findings file, confirms fresh
//! violations by replay, writes replay files and the evidence file, and decides the exit code.
//!
//! exit 0: property held on everything explored (known findings are printed, not alarms)
//! exit 1: at least one violation that is not listed as known  (VIOLATION line printed)
//! exit 2: machinery error (no verdict)

use crate::ctx::{KeyBucket, Tier, UnitResult, Violation};
use crate::props::{self, Prop};
use serde_json::{json, Value};
use std::collections::{BTreeMap, HashSet};
use std::io::Read;
use std::path::{Path, PathBuf};
use std::process::{Command, Stdio};
use std::sync::atomic::{AtomicUsize, Ordering};
use std::sync::Mutex;
use std::time::{Duration, Instant, SystemTime, UNIX_EPOCH};

pub fn root() -> PathBuf {
    PathBuf::from(std::env::var("VERIF_ROOT").unwrap_or_else(|_| "/verif".to_string()))
}

fn env_u64(name: &str, default: u64) -> u64 {
    std::env::var(name)
        .ok()
        .and_then(|s| s.parse().ok())
        .unwrap_or(default)
}

#[derive(Debug)]
enum WorkerEnd {
    Ok(UnitResult),
    /// exit code / signal description; no RESULT line
    Died(String),
}

fn run_worker(args: &[String], outer_timeout: Duration) -> WorkerEnd {
    let exe = std::env::current_exe().expect("current_exe");
    let mut cmd = Command::new(exe);
    // once a death has been attributed to a case, later workers give up on a silent case sooner:
    // the verdict is a violation already and every further hang costs a full stall period
    if DEATHS_ATTRIBUTED.load(Ordering::SeqCst) > 0 && std::env::var("VERIF_STALL_S").is_err() {
        cmd.env("VERIF_STALL_S", "8");
    }
    let mut child = match cmd
        .args(args)
        .stdin(Stdio::null())
        .stdout(Stdio::piped())
        .stderr(Stdio::piped())
        .spawn()
    {
        Ok(c) => c,
        Err(e) => return WorkerEnd::Died(format!("spawn failed: {}", e)),
    };
    let mut so = child.stdout.take().unwrap();
    let mut se = child.stderr.take().unwrap();
    let t_out = std::thread::spawn(move || {
        let mut s = String::new();
        let _ = so.read_to_string(&mut s);
        s
    });
    let t_err = std::thread::spawn(move || {
        let mut s = String::new();
        let _ = se.read_to_string(&mut s);
        s
    });
    let start = Instant::now();
    let mut killed = false;
    let status = loop {
        match child.try_wait() {
            Ok(Some(st)) => break st,
            Ok(None) => {}
            Err(e) => return WorkerEnd::Died(format!("wait failed: {}", e)),
        }
        if start.elapsed() > outer_timeout {
            let _ = child.kill();
            killed = true;
        }
        std::thread::sleep(Duration::from_millis(10));
    };
    let out = t_out.join().unwrap_or_default();
    let err = t_err.join().unwrap_or_default();
    if status.success() {
        for line in out.lines().rev() {
            if let Some(j) = line.strip_prefix("RESULT ") {
                match serde_json::from_str::<UnitResult>(j) {
                    Ok(r) => return WorkerEnd::Ok(r),
                    Err(e) => return WorkerEnd::Died(format!("unparsable RESULT: {}", e)),
                }
            }
        }
        return WorkerEnd::Died("exit 0 without RESULT".into());
    }
    let tail: String = err.lines().rev().take(3).collect::<Vec<_>>().join(" | ");
    WorkerEnd::Died(format!(
        "{}{:?} stderr: {}",
        if killed { "killed by driver after outer timeout; " } else { "" },
        status,
        tail
    ))
}

fn read_pin(path: &Path) -> Option<String> {
    let b = std::fs::read(path).ok()?;
    if b.len() < 8 {
        return None;
    }
    let n = u64::from_le_bytes(b[..8].try_into().ok()?) as usize;
    if b.len() < 8 + n || n == 0 {
        return None;
    }
    String::from_utf8(b[8..8 + n].to_vec()).ok()
}

static DEATHS_ATTRIBUTED: AtomicUsize = AtomicUsize::new(0);

struct UnitOutcome {
    result: Option<UnitResult>,
    /// cases that killed / stalled a worker: (case text, how)
    deaths: Vec<(String, String)>,
    machinery: Option<String>,
    incomplete: bool,
}

fn run_unit_supervised(
    prop: &dyn Prop,
    tier: Tier,
    unit: usize,
    deadline_unix: u64,
    workdir: &Path,
) -> UnitOutcome {
    let base = vec![
        "worker".to_string(),
        prop.id().to_string(),
        "--tier".into(),
        tier.name().into(),
        "--unit".into(),
        unit.to_string(),
        "--deadline-unix".into(),
        deadline_unix.to_string(),
    ];
    let now = SystemTime::now().duration_since(UNIX_EPOCH).unwrap().as_secs();
    let outer = Duration::from_secs(deadline_unix.saturating_sub(now) + 120);
    match run_worker(&base, outer) {
        WorkerEnd::Ok(r) => {
            return UnitOutcome {
                result: Some(r),
                deaths: vec![],
                machinery: None,
                incomplete: false,
            }
        }
        WorkerEnd::Died(why) if why.contains("PANIC-OUTSIDE-CASE") => {
            return UnitOutcome {
                result: None,
                deaths: vec![],
                machinery: Some(format!("unit {}: the check itself panicked outside a case: {}", unit, why)),
                incomplete: true,
            };
        }
        WorkerEnd::Died(why) if DEATHS_ATTRIBUTED.load(Ordering::SeqCst) >= env_u64("VERIF_MAX_DEATHS_TOTAL", 4) as usize => {
            // enough deaths have been attributed to single cases already (each costs a stall
            // timeout); the verdict is a violation anyway, this unit is reported as incomplete
            eprintln!("[driver] {} unit {} worker died ({}); not attributed (death budget used up)", prop.id(), unit, why);
            return UnitOutcome {
                result: None,
                deaths: vec![],
                machinery: None,
                incomplete: true,
            };
        }
        WorkerEnd::Died(why) => {
            eprintln!(
                "[driver] {} unit {} worker died ({}); re-running in pinpoint mode",
                prop.id(),
                unit,
                why
            );
        }
    }
    // pinpoint loop
    let pin = workdir.join(format!("{}.{}.pin", prop.id(), unit));
    let skipf = workdir.join(format!("{}.{}.skip", prop.id(), unit));
    let max_deaths = env_u64("VERIF_MAX_DEATHS_PER_UNIT", 2) as usize;
    let mut deaths: Vec<(String, String)> = vec![];
    loop {
        let _ = std::fs::remove_file(&pin);
        std::fs::write(
            &skipf,
            deaths.iter().map(|d| d.0.clone()).collect::<Vec<_>>().join("\n"),
        )
        .ok();
        let mut args = base.clone();
        args.push("--pin".into());
        args.push(pin.to_string_lossy().to_string());
        args.push("--skip".into());
        args.push(skipf.to_string_lossy().to_string());
        let now = SystemTime::now().duration_since(UNIX_EPOCH).unwrap().as_secs();
        let outer = Duration::from_secs(deadline_unix.saturating_sub(now) + 240);
        match run_worker(&args, outer) {
            WorkerEnd::Ok(r) => {
                if deaths.is_empty() {
                    return UnitOutcome {
                        result: Some(r),
                        deaths,
                        machinery: Some(format!(
                            "unit {} died in normal mode but completed in pinpoint mode (not reproducible)",
                            unit
                        )),
                        incomplete: false,
                    };
                }
                return UnitOutcome {
                    result: Some(r),
                    deaths,
                    machinery: None,
                    incomplete: false,
                };
            }
            WorkerEnd::Died(why) => match read_pin(&pin) {
                Some(case) => {
                    if deaths.iter().any(|d| d.0 == case) {
                        return UnitOutcome {
                            result: None,
                            deaths,
                            machinery: Some(format!(
                                "unit {} died twice at a case that should have been skipped",
                                unit
                            )),
                            incomplete: true,
                        };
                    }
                    eprintln!("[driver] {} unit {} death attributed to case {}", prop.id(), unit, case);
                    deaths.push((case, why));
                    DEATHS_ATTRIBUTED.fetch_add(1, Ordering::SeqCst);
                    if deaths.len() >= max_deaths {
                        return UnitOutcome {
                            result: None,
                            deaths,
                            machinery: None,
                            incomplete: true,
                        };
                    }
                }
                None => {
                    return UnitOutcome {
                        result: None,
                        deaths,
                        machinery: Some(format!(
                            "unit {} died before announcing any case: {}",
                            unit, why
                        )),
                        incomplete: true,
                    }
                }
            },
        }
    }
}

#[derive(Clone, Debug)]
pub struct Finding {
    pub status: String, // known | fixed
    pub property: String,
    pub commit: Option<String>,
    pub key: String,
    pub text: String,
}

/// known_findings.txt — one finding per line:
///   known: property=C02 key=<key> <what fails>
///   fixed: property=C08 <commit> key=<key> <what failed>
pub fn load_findings() -> Vec<Finding> {
    let p = root().join("known_findings.txt");
    let s = std::fs::read_to_string(p).unwrap_or_default();
    let mut v = vec![];
    for line in s.lines() {
        let line = line.trim();
        if line.is_empty() || line.starts_with('#') {
            continue;
        }
        let (status, rest) = match line.split_once(':') {
            Some(x) => x,
            None => continue,
        };
        let status = status.trim().to_string();
        if status != "known" && status != "fixed" {
            continue;
        }
        let mut property = String::new();
        let mut key = String::new();
        let mut commit = None;
        let mut text = vec![];
        for tok in rest.split_whitespace() {
            if let Some(p) = tok.strip_prefix("property=") {
                if property.is_empty() {
                    property = p.to_string();
                    continue;
                }
            }
            if let Some(k) = tok.strip_prefix("key=") {
                if key.is_empty() {
                    key = k.to_string();
                    continue;
                }
            }
            if status == "fixed" && commit.is_none() && key.is_empty() && !property.is_empty() {
                commit = Some(tok.to_string());
                continue;
            }
            text.push(tok);
        }
        v.push(Finding {
            status,
            property,
            commit,
            key,
            text: text.join(" "),
        });
    }
    v
}

fn short_hash(s: &str) -> String {
    format!("{:016x}", crate::ctx::hash_of(&s))
}

fn write_replay(prop: &str, v: &Violation) -> PathBuf {
    let dir = root().join("replays");
    let _ = std::fs::create_dir_all(&dir);
    let name = format!(
        "{}-{}.json",
        prop,
        &short_hash(&format!("{}{}", v.key, v.case))[..12]
    );
    let path = dir.join(name);
    let body = json!({
        "property": prop,
        "key": v.key,
        "case": v.case,
        "detail": v.detail,
        "replay": format!("./check {} --replay {}", prop, path.display()),
    });
    let _ = std::fs::write(&path, serde_json::to_string_pretty(&body).unwrap());
    path
}

/// Re-execute one case in a fresh worker. Returns Ok(buckets) or Err(death description).
pub fn replay_case_isolated(
    prop: &str,
    case: &Value,
    workdir: &Path,
) -> Result<BTreeMap<String, KeyBucket>, String> {
    let _ = std::fs::create_dir_all(workdir);
    let f = workdir.join(format!(
        "{}.replay.{}.json",
        prop,
        &short_hash(&case.to_string())[..12]
    ));
    std::fs::write(&f, case.to_string()).map_err(|e| e.to_string())?;
    let args = vec![
        "replay-worker".to_string(),
        prop.to_string(),
        f.to_string_lossy().to_string(),
    ];
    let stall = env_u64("VERIF_STALL_S", 20);
    let r = run_worker(&args, Duration::from_secs(stall * 4 + 1200));
    let _ = std::fs::remove_file(&f);
    match r {
        WorkerEnd::Ok(r) => Ok(r.violations),
        WorkerEnd::Died(why) => Err(why),
    }
}

pub fn drive(id: &str, tier: Tier) -> i32 {
    let prop = match props::get(id) {
        Some(p) => p,
        None => {
            eprintln!("unknown property {}", id);
            return 2;
        }
    };
    let t0 = Instant::now();
    let seed: i64 = std::env::var("VERIF_SEED")
        .ok()
        .and_then(|s| s.parse().ok())
        .unwrap_or(0);
    let jobs = env_u64(
        "VERIF_JOBS",
        std::thread::available_parallelism().map(|n| n.get() as u64).unwrap_or(8),
    ) as usize;
    let cap_s = env_u64(
        "VERIF_WALL_CAP_S",
        match tier {
            Tier::Quick => 420,
            Tier::Thorough => 6 * 3600,
        },
    );
    let deadline_unix = SystemTime::now().duration_since(UNIX_EPOCH).unwrap().as_secs() + cap_s;
    let workdir = root().join("work");
    let _ = std::fs::create_dir_all(&workdir);
    let units = prop.units(tier);
    let n_units = units.len();
    let next = AtomicUsize::new(0);
    let outcomes: Mutex<Vec<(usize, UnitOutcome)>> = Mutex::new(Vec::new());
    std::thread::scope(|s| {
        for _ in 0..jobs.min(n_units.max(1)) {
            s.spawn(|| loop {
                let u = next.fetch_add(1, Ordering::SeqCst);
                if u >= n_units {
                    break;
                }
                let o = run_unit_supervised(prop, tier, u, deadline_unix, &workdir);
                outcomes.lock().unwrap().push((u, o));
            });
        }
    });
    let mut outs = outcomes.into_inner().unwrap();
    outs.sort_by_key(|x| x.0);

    // ---- merge
    let mut machinery: Vec<String> = vec![];
    let mut cases = 0u64;
    let mut nontrivial = 0u64;
    let mut states = 0u64;
    let mut transitions = 0u64;
    let mut traces = 0u64;
    let mut capped_units = 0usize;
    let mut skipped_after_cap = 0u64;
    let mut incomplete_units = 0usize;
    let mut outcome_set: HashSet<u64> = HashSet::new();
    let mut outcomes_saturated = false;
    let mut buckets: BTreeMap<String, KeyBucket> = BTreeMap::new();
    let mut samples: Vec<Value> = vec![];
    let mut extra: BTreeMap<String, u64> = BTreeMap::new();
    let mut unit_rows: Vec<Value> = vec![];
    let mut deaths_all: Vec<(String, String)> = vec![];
    for (u, o) in outs.iter() {
        if let Some(m) = &o.machinery {
            machinery.push(m.clone());
        }
        if o.incomplete {
            incomplete_units += 1;
        }
        for d in &o.deaths {
            deaths_all.push(d.clone());
        }
        if let Some(r) = &o.result {
            cases += r.cases;
            nontrivial += r.nontrivial;
            states += r.states;
            transitions += r.transitions;
            traces += r.traces;
            if r.capped {
                capped_units += 1;
            }
            skipped_after_cap += r.skipped_after_cap;
            outcomes_saturated |= r.outcomes_saturated;
            if outcome_set.len() < 4_000_000 {
                outcome_set.extend(r.outcomes.iter().copied());
            } else {
                outcomes_saturated = true;
            }
            for (k, b) in &r.violations {
                let e = buckets.entry(k.clone()).or_default();
                e.count += b.count;
                for ex in &b.examples {
                    e.examples.push(ex.clone());
                }
                // keep the three smallest witnesses (shortest description first)
                e.examples.sort_by_key(|x| x.case.to_string().len());
                e.examples.truncate(3);
            }
            for sm in &r.samples {
                if samples.len() < 12 && (samples.len() < 4 || *u % 7 == 0) {
                    samples.push(sm.clone());
                }
            }
            for (k, n) in &r.extra {
                *extra.entry(k.clone()).or_insert(0) += n;
            }
            unit_rows.push(json!({"unit": r.name, "cases": r.cases, "nontrivial": r.nontrivial,
                "wall_s": (r.wall_s*100.0).round()/100.0, "capped": r.capped}));
        } else {
            unit_rows.push(json!({"unit": units[*u], "cases": 0, "died": true}));
        }
    }
    // worker deaths become violations, classified by the property, after confirmation by replay
    for (case_text, why) in &deaths_all {
        let case: Value = serde_json::from_str(case_text).unwrap_or(Value::String(case_text.clone()));
        let how = if why.contains("exit status: 97") {
            "stall"
        } else if why.contains("exit status: 98") {
            "memory"
        } else {
            "died"
        };
        match replay_case_isolated(prop.id(), &case, &workdir) {
            Err(_) => {
                let key = format!("{}/{}", prop.id(), prop.death_key(&case, how));
                let e = buckets.entry(key.clone()).or_default();
                e.count += 1;
                if e.examples.len() < 3 {
                    e.examples.push(Violation {
                        key,
                        case,
                        detail: format!("worker did not return on this case: {}", why),
                    });
                }
            }
            Ok(_) => machinery.push(format!(
                "case {} killed a worker but returned normally when replayed alone",
                case_text
            )),
        }
    }

    // ---- known findings
    let findings = load_findings();
    let mut known_lines: Vec<String> = vec![];
    let mut fresh: Vec<(String, KeyBucket)> = vec![];
    let mut known_count = 0u64;
    for (k, b) in &buckets {
        let is_known = findings
            .iter()
            .any(|f| f.status == "known" && f.property == prop.id() && f.key == *k);
        if is_known {
            known_count += b.count;
            let first = b
                .examples
                .first()
                .map(|e| format!("{} :: {}", e.case, e.detail))
                .unwrap_or_default();
            known_lines.push(format!(
                "KNOWN-FINDING: property={} {} ({} cases; first: {})",
                prop.id(),
                k,
                b.count,
                truncate(&first, 400)
            ));
        } else {
            fresh.push((k.clone(), b.clone()));
        }
    }
    // confirm fresh violations by replaying the first example of each key in a fresh worker
    let mut violation_lines: Vec<String> = vec![];
    let mut fresh_count = 0u64;
    for (k, b) in &fresh {
        fresh_count += b.count;
        let ex = match b.examples.first() {
            Some(e) => e,
            None => continue,
        };
        let confirmed = if ex.detail.starts_with("worker did not return") {
            true // already confirmed above
        } else {
            match replay_case_isolated(prop.id(), &ex.case, &workdir) {
                Ok(v) => v.contains_key(k),
                Err(_) => true, // dies when replayed: certainly not fine
            }
        };
        if !confirmed {
            machinery.push(format!(
                "violation {} on case {} did not reproduce when replayed in a fresh worker",
                k, ex.case
            ));
            continue;
        }
        let path = write_replay(prop.id(), ex);
        let was_fixed = findings
            .iter()
            .any(|f| f.status == "fixed" && f.property == prop.id() && f.key == *k);
        println!(
            "  violation class {}{}: {} cases; first: {} :: {}",
            k,
            if was_fixed { " (REGRESSION of a fixed finding)" } else { "" },
            b.count,
            truncate(&ex.case.to_string(), 300),
            truncate(&ex.detail, 400)
        );
        violation_lines.push(format!(
            "VIOLATION property={} replay={}",
            prop.id(),
            path.display()
        ));
    }

    let wall = t0.elapsed().as_secs_f64();
    let exhaustive = capped_units == 0 && incomplete_units == 0 && machinery.is_empty();

    // ---- evidence
    let mut coverage = json!({
        "evaluations": cases,
        "distinct_nontrivial": nontrivial,
        "rule": prop.rule(),
        "samples": samples,
        "distinct_observed_outcomes": outcome_set.len(),
        "outcomes_lower_bound_only": outcomes_saturated,
        "exhaustive": exhaustive,
        "bounds": prop.bounds(tier),
        "units": n_units,
        "units_capped_by_wall_limit": capped_units,
        "cases_skipped_after_cap": skipped_after_cap,
        "units_incomplete_after_worker_deaths": incomplete_units,
        "worker_deaths_attributed": deaths_all.len(),
        "violations_known": known_count,
        "violations_new": fresh_count,
        "violation_classes": buckets.iter().map(|(k,b)| json!({"key":k,"cases":b.count})).collect::<Vec<_>>(),
        "per_unit": unit_rows,
        "counters": extra,
        "wall_cap_s": cap_s,
    });
    if prop.level() == "model_checking" {
        coverage["states"] = json!(states);
        coverage["transitions"] = json!(transitions);
        coverage["traces_validated_against_impl"] = json!(traces);
    } else if states > 0 {
        coverage["states"] = json!(states);
        coverage["transitions"] = json!(transitions);
        coverage["traces_validated_against_impl"] = json!(traces);
    }
    let evidence = json!({
        "property_id": prop.id(),
        "tier": tier.name(),
        "seed": seed,
        "level": prop.level(),
        "coverage": coverage,
        "assumptions": prop.assumptions(),
        "wall_s": (wall * 100.0).round() / 100.0,
        "violations": fresh_count + known_count,
    });
    let evdir = root().join("evidence");
    let _ = std::fs::create_dir_all(&evdir);
    let evpath = evdir.join(format!("{}.json", prop.id()));
    if let Err(e) = std::fs::write(&evpath, serde_json::to_string_pretty(&evidence).unwrap()) {
        machinery.push(format!("cannot write evidence: {}", e));
    }
    // a per-tier copy, so that a quick run does not erase the record of the last thorough run
    let tdir = evdir.join("by_tier");
    let _ = std::fs::create_dir_all(&tdir);
    let _ = std::fs::write(
        tdir.join(format!("{}.{}.json", prop.id(), tier.name())),
        serde_json::to_string_pretty(&evidence).unwrap(),
    );

    // ---- report
    println!(
        "{} {}: units={} cases={} nontrivial={} outcomes={}{} states={} transitions={} traces={} known={} new={} capped_units={} wall={:.1}s",
        prop.id(), tier.name(), n_units, cases, nontrivial, outcome_set.len(),
        if outcomes_saturated { "+" } else { "" }, states, transitions, traces,
        known_count, fresh_count, capped_units, wall
    );
    for l in &known_lines {
        println!("{}", l);
    }
    for l in &violation_lines {
        println!("{}", l);
    }
    if !violation_lines.is_empty() {
        return 1;
    }
    if incomplete_units > 0 && known_lines.is_empty() && machinery.is_empty() {
        machinery.push(format!("{} units did not complete and no violation explains it", incomplete_units));
    }
    if !machinery.is_empty() {
        for m in &machinery {
            eprintln!("MACHINERY-ERROR: {}", m);
        }
        return 2;
    }
    if capped_units > 0 {
        println!(
            "NOTE: wall cap of {}s reached; {} cases were not executed (evidence.exhaustive=false)",
            cap_s, skipped_after_cap
        );
    }
    0
}

fn truncate(s: &str, n: usize) -> String {
    if s.chars().count() <= n {
        s.to_string()
    } else {
        let t: String = s.chars().take(n).collect();
        format!("{}…", t)
    }
}

/// `check <ID> --replay <file>`
pub fn replay_file(id: &str, path: &str) -> i32 {
    let body = match std::fs::read_to_string(path) {
        Ok(b) => b,
        Err(e) => {
            eprintln!("cannot read {}: {}", path, e);
            return 2;
        }
    };
    let v: Value = match serde_json::from_str(&body) {
        Ok(v) => v,
        Err(e) => {
            eprintln!("bad replay file: {}", e);
            return 2;
        }
    };
    let case = v.get("case").cloned().unwrap_or(v.clone());
    let workdir = root().join("work");
    match replay_case_isolated(id, &case, &workdir) {
        Ok(b) if b.is_empty() => {
            println!("replay {}: case passes (no violation)", path);
            0
        }
        Ok(b) => {
            for (k, bk) in &b {
                for e in &bk.examples {
                    println!("  {}: {}", k, e.detail);
                }
            }
            println!("VIOLATION property={} replay={}", id, path);
            1
        }
        Err(why) => {
            println!("  worker did not return: {}", why);
            println!("VIOLATION property={} replay={}", id, path);
            1
        }
    }
}
