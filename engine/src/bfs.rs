//! K2 — explicit-state breadth-first search over operation histories of a real object.
//!
//! A state is whatever the property keeps (normally: the real object plus its reference model).
//! Every transition is executed on the implementation inside `Ctx::case`, so a panic is caught
//! and attributed to the history that caused it. States are de-duplicated on a key that must
//! contain every field of the real object (these types derive Hash/Eq/Debug over all fields) —
//! equal keys then have equal futures because the code is deterministic, so merging is sound.
#![allow(dead_code)]

use crate::ctx::{CaseCtx, Ctx};
use serde_json::Value;
use std::collections::HashSet;
use std::hash::Hash;

pub struct BfsStats {
    pub states: u64,
    pub transitions: u64,
    pub leaf_transitions: u64,
    pub max_depth_reached: usize,
}

/// `ops(state)` = enabled operations; `step(state, op, cc)` applies `op` to a clone of the state,
/// runs all per-transition checks (reporting through `cc`) and returns the successor, or None to
/// stop expanding (e.g. after a violation that leaves the object in an undefined condition).
pub fn explore<S, O, K>(
    ctx: &mut Ctx,
    inits: Vec<(S, Value)>,
    depth: usize,
    ops: impl Fn(&S) -> Vec<O>,
    step: impl Fn(&S, &O, &mut CaseCtx) -> Option<S>,
    key: impl Fn(&S) -> K,
    op_desc: impl Fn(&O) -> Value,
    extra_desc: Value,
) -> BfsStats
where
    S: Clone,
    O: Clone,
    K: Hash + Eq,
{
    // `seen` keeps a 128-bit digest of the full key, not the key itself (depth-5 searches hold
    // 10^6..10^7 states per unit).  A digest collision (probability < 1e-20 per run) could only
    // make the search skip a state, never report a false violation.
    let mut seen: HashSet<u128> = HashSet::new();
    let digest = |k: &K| -> u128 {
        use std::hash::Hasher;
        let mut a = std::collections::hash_map::DefaultHasher::new();
        0x9E37_79B9_7F4A_7C15u64.hash(&mut a);
        k.hash(&mut a);
        let mut b = std::collections::hash_map::DefaultHasher::new();
        0xC2B2_AE3D_27D4_EB4Fu64.hash(&mut b);
        k.hash(&mut b);
        ((a.finish() as u128) << 64) | b.finish() as u128
    };
    let init_descs: Vec<Value> = inits.iter().map(|(_, d)| d.clone()).collect();
    let mut frontier: Vec<(S, usize, Vec<O>)> = vec![];
    let mut stats = BfsStats {
        states: 0,
        transitions: 0,
        leaf_transitions: 0,
        max_depth_reached: 0,
    };
    for (i, (s, _)) in inits.into_iter().enumerate() {
        if seen.insert(digest(&key(&s))) {
            stats.states += 1;
            frontier.push((s, i, vec![]));
        }
    }
    for d in 1..=depth {
        let mut next: Vec<(S, usize, Vec<O>)> = vec![];
        let mut level_transitions = 0u64;
        for (s, init_i, hist) in &frontier {
            let init_d = &init_descs[*init_i];
            for op in ops(s) {
                let mut succ: Option<S> = None;
                ctx.case(
                    || {
                        let mut h: Vec<Value> = hist.iter().map(&op_desc).collect();
                        h.push(op_desc(&op));
                        serde_json::json!({"kind": "history", "init": init_d, "ops": h, "cfg": extra_desc})
                    },
                    |cc| {
                        cc.add_transitions(1);
                        succ = step(s, &op, cc);
                    },
                );
                stats.transitions += 1;
                level_transitions += 1;
                if ctx.res.capped {
                    return stats;
                }
                if let Some(ns) = succ {
                    if d < depth {
                        if seen.insert(digest(&key(&ns))) {
                            stats.states += 1;
                            let mut h = hist.clone();
                            h.push(op.clone());
                            next.push((ns, *init_i, h));
                        }
                    } else if seen.insert(digest(&key(&ns))) {
                        stats.states += 1;
                    }
                }
            }
        }
        stats.max_depth_reached = d;
        stats.leaf_transitions = level_transitions;
        frontier = next;
        if frontier.is_empty() {
            // no new state at this depth: the reachable state space (under this operation
            // alphabet) is closed, deeper histories only revisit explored states
            if d < depth {
                *ctx.res.extra.entry("bfs_fixpoint_reached_before_depth_bound".into()).or_insert(0) += 1;
            }
            break;
        }
    }
    ctx.res.states += stats.states;
    // complete histories = the transitions of the last level that was executed
    ctx.res.traces += stats.leaf_transitions;
    stats
}
