//! Shared reference models and text generators for C03 (suffix array / LCP / sampled SA),
//! C04 (BWT / less / Occ / inverse) and C05 (FM-index backward search).
//!
//! Everything here is deliberately naive: suffixes are sorted by comparing key slices, counts are
//! counted, occurrences are found by window comparison.  Nothing in this file calls the subject.
#![allow(dead_code)]

use crate::ctx::Tier;

// ------------------------------------------------------------------------------------------------
// abstract symbols and byte embeddings
// ------------------------------------------------------------------------------------------------

/// Abstract texts are digit strings: 0 = sentinel, 1,2,3 = the symbols a,b,c.
/// An embedding maps the four digits to concrete bytes (the sentinel must be the smallest byte).
pub const ASCII: [u8; 4] = *b"$abc";
/// sentinel 0x00, symbols 0x01 / 0xFF / 0x80 (full byte range; exercises `as usize` indexing)
pub const EXTREME: [u8; 4] = [0x00, 0x01, 0xFF, 0x80];

pub fn embedding(name: &str) -> &'static [u8; 4] {
    if name == "extreme" {
        &EXTREME
    } else {
        &ASCII
    }
}

/// digits (0..=3) -> bytes, plus the trailing sentinel
pub fn text_of_body(body: &[u8], emb: &[u8; 4]) -> Vec<u8> {
    let mut t: Vec<u8> = body.iter().map(|&d| emb[d as usize]).collect();
    t.push(emb[0]);
    t
}

/// Call `f(global_index, body)` for every digit string over 0..radix with length lo..=hi (shortest
/// first, then lexicographic) whose global index satisfies idx % nshards == shard.
pub fn for_each_body(
    radix: u8,
    lo: usize,
    hi: usize,
    shard: usize,
    nshards: usize,
    mut f: impl FnMut(u64, &[u8]),
) {
    let mut idx: u64 = 0;
    for len in lo..=hi {
        let mut d = vec![0u8; len];
        'outer: loop {
            if idx % nshards as u64 == shard as u64 {
                f(idx, &d);
            }
            idx += 1;
            let mut i = len;
            loop {
                if i == 0 {
                    break 'outer;
                }
                i -= 1;
                d[i] += 1;
                if d[i] < radix {
                    break;
                }
                d[i] = 0;
            }
        }
    }
}

pub fn count_bodies(radix: u64, lo: usize, hi: usize) -> u64 {
    (lo..=hi).map(|l| radix.pow(l as u32)).sum()
}

// ------------------------------------------------------------------------------------------------
// the order among sentinel occurrences
// ------------------------------------------------------------------------------------------------

/// Which fixed total order the *oracle-built* suffix array uses among sentinel occurrences.  The
/// final sentinel is always the smallest; `Desc` = a later occurrence is smaller (what SA-IS in
/// the subject happens to produce), `Asc` = among the non-final ones an earlier one is smaller.
#[derive(Clone, Copy, PartialEq, Eq, Debug, Hash)]
pub enum Pi {
    Desc,
    Asc,
}

impl Pi {
    pub fn name(self) -> &'static str {
        match self {
            Pi::Desc => "desc",
            Pi::Asc => "asc",
        }
    }
    pub fn parse(s: &str) -> Pi {
        if s == "asc" {
            Pi::Asc
        } else {
            Pi::Desc
        }
    }
}

pub fn sentinel_count(text: &[u8]) -> usize {
    let s = text[text.len() - 1];
    text.iter().filter(|&&c| c == s).count()
}

/// precondition of all three properties: last symbol is the smallest symbol of the text
pub fn is_valid_text(text: &[u8]) -> bool {
    match text.last() {
        None => false,
        Some(&s) => text.iter().all(|&c| c >= s),
    }
}

/// Comparison keys: sentinel occurrence -> its rank (all distinct, all below every symbol key),
/// other symbol c -> nsent + c.  Suffix order under the chosen sentinel order = lexicographic order
/// of key slices (no slice is a prefix of another because the final key is unique).
fn keys_with_ranks(text: &[u8], rank_of_sentinel_at: &[usize]) -> Vec<u32> {
    let n = text.len();
    let s = text[n - 1];
    let nsent = sentinel_count(text) as u32;
    (0..n)
        .map(|i| {
            if text[i] == s {
                rank_of_sentinel_at[i] as u32
            } else {
                nsent + text[i] as u32
            }
        })
        .collect()
}

pub fn keys_for(text: &[u8], pi: Pi) -> Vec<u32> {
    let n = text.len();
    let s = text[n - 1];
    let mut rank = vec![usize::MAX; n];
    let occ: Vec<usize> = (0..n).filter(|&i| text[i] == s).collect();
    let m = occ.len();
    match pi {
        Pi::Desc => {
            for (j, &p) in occ.iter().enumerate() {
                rank[p] = m - 1 - j;
            }
        }
        Pi::Asc => {
            rank[n - 1] = 0;
            for (j, &p) in occ[..m - 1].iter().enumerate() {
                rank[p] = j + 1;
            }
        }
    }
    keys_with_ranks(text, &rank)
}

/// naive suffix sort under the given sentinel order
pub fn naive_sa(text: &[u8], pi: Pi) -> Vec<usize> {
    let keys = keys_for(text, pi);
    let mut sa: Vec<usize> = (0..text.len()).collect();
    sa.sort_by(|&a, &b| keys[a..].cmp(&keys[b..]));
    sa
}

#[derive(Debug, Clone, PartialEq, Eq)]
pub enum SaDefect {
    WrongLength(usize),
    NotPermutation(usize),
    FinalSentinelNotFirst,
    /// row r-1 / row r are not strictly increasing under the comparison derived from the array
    NotSorted(usize),
}

impl SaDefect {
    pub fn symptom(&self) -> &'static str {
        match self {
            SaDefect::WrongLength(_) => "wrong-length",
            SaDefect::NotPermutation(_) => "not-a-permutation",
            SaDefect::FinalSentinelNotFirst => "final-sentinel-not-first",
            SaDefect::NotSorted(_) => "not-sorted",
        }
    }
}

/// The C03 relation: permutation, final sentinel first, and strictly increasing under the
/// lexicographic comparison in which sentinel occurrences compare by *the order in which the
/// array itself lists them* (any fixed total order is accepted) and below every other symbol.
pub fn check_sa(text: &[u8], sa: &[usize]) -> Result<(), SaDefect> {
    let n = text.len();
    if sa.len() != n {
        return Err(SaDefect::WrongLength(sa.len()));
    }
    let mut seen = vec![false; n];
    for &p in sa {
        if p >= n || seen[p] {
            return Err(SaDefect::NotPermutation(p));
        }
        seen[p] = true;
    }
    if sa[0] != n - 1 {
        return Err(SaDefect::FinalSentinelNotFirst);
    }
    let s = text[n - 1];
    let mut rank = vec![usize::MAX; n];
    let mut r = 0;
    for &p in sa {
        if text[p] == s {
            rank[p] = r;
            r += 1;
        }
    }
    let keys = keys_with_ranks(text, &rank);
    for r in 1..n {
        if keys[sa[r - 1]..] >= keys[sa[r]..] {
            return Err(SaDefect::NotSorted(r));
        }
    }
    Ok(())
}

/// naive suffix sort of an integer text that ends in a unique minimum
pub fn naive_sa_int(text: &[u64]) -> Vec<usize> {
    let mut sa: Vec<usize> = (0..text.len()).collect();
    sa.sort_by(|&a, &b| text[a..].cmp(&text[b..]));
    sa
}

/// every value 0..=max occurs, the last element is 0 and occurs only there
pub fn is_dense_unique_min(text: &[u64]) -> bool {
    if text.is_empty() || *text.last().unwrap() != 0 {
        return false;
    }
    if text[..text.len() - 1].iter().any(|&v| v == 0) {
        return false;
    }
    let mx = *text.iter().max().unwrap();
    let mut seen = vec![false; mx as usize + 1];
    for &v in text {
        seen[v as usize] = true;
    }
    seen.iter().all(|&b| b)
}

// ------------------------------------------------------------------------------------------------
// LCP, shortest unique substrings
// ------------------------------------------------------------------------------------------------

pub fn lce(text: &[u8], a: usize, b: usize) -> usize {
    let n = text.len();
    let mut c = 0;
    while a + c < n && b + c < n && text[a + c] == text[b + c] {
        c += 1;
    }
    c
}

/// -1, true LCP of each adjacent pair, -1
pub fn true_lcp(text: &[u8], sa: &[usize]) -> Vec<isize> {
    let n = text.len();
    let mut v = vec![-1isize; n + 1];
    for r in 1..n {
        v[r] = lce(text, sa[r - 1], sa[r]) as isize;
    }
    v
}

/// literal definition: the length of the shortest substring starting at p that occurs exactly once
pub fn sus_by_definition(text: &[u8]) -> Vec<Option<usize>> {
    let n = text.len();
    (0..n)
        .map(|p| {
            for l in 1..=(n - p) {
                let sub = &text[p..p + l];
                let cnt = (0..=n - l).filter(|&q| &text[q..q + l] == sub).count();
                if cnt == 1 {
                    return Some(l);
                }
            }
            None
        })
        .collect()
}

/// same function for longer texts: text[p..p+l] is unique iff l > max_{q != p} lce(p, q);
/// all-pairs lce by the quadratic recurrence lce(i,j) = 1 + lce(i+1,j+1) on equal symbols.
pub fn sus_by_lce_table(text: &[u8]) -> Vec<Option<usize>> {
    let n = text.len();
    let mut best = vec![0usize; n];
    let mut prev = vec![0u32; n + 1]; // row i+1
    let mut cur = vec![0u32; n + 1];
    for i in (0..n).rev() {
        for j in 0..n {
            cur[j] = if text[i] == text[j] { 1 + prev[j + 1] } else { 0 };
        }
        cur[n] = 0;
        for j in 0..n {
            if j != i && cur[j] as usize > best[i] {
                best[i] = cur[j] as usize;
            }
        }
        std::mem::swap(&mut prev, &mut cur);
    }
    (0..n)
        .map(|p| if best[p] + 1 <= n - p { Some(best[p] + 1) } else { None })
        .collect()
}

pub fn sus_oracle(text: &[u8]) -> Vec<Option<usize>> {
    if text.len() <= 12 {
        sus_by_definition(text)
    } else {
        sus_by_lce_table(text)
    }
}

// ------------------------------------------------------------------------------------------------
// BWT, less, occurrences
// ------------------------------------------------------------------------------------------------

/// bwt[r] = the symbol that cyclically precedes the r-th smallest suffix
pub fn bwt_def(text: &[u8], sa: &[usize]) -> Vec<u8> {
    let n = text.len();
    sa.iter().map(|&p| text[(p + n - 1) % n]).collect()
}

/// number of text symbols strictly smaller than c
pub fn less_count(text: &[u8], c: usize) -> usize {
    text.iter().filter(|&&d| (d as usize) < c).count()
}

/// the complete table the subject's `less` is documented to return for an alphabet with the given
/// maximum symbol: index c in 0..=max+1
pub fn less_table(text: &[u8], max_symbol: u8) -> Vec<usize> {
    (0..max_symbol as usize + 2).map(|c| less_count(text, c)).collect()
}

/// start positions of q in text (naive window comparison)
pub fn occurrences(text: &[u8], q: &[u8]) -> Vec<usize> {
    if q.is_empty() || q.len() > text.len() {
        return vec![];
    }
    (0..=text.len() - q.len()).filter(|&i| &text[i..i + q.len()] == q).collect()
}

/// length of the longest suffix of p that occurs in text (0 if even the last symbol is absent)
pub fn longest_occurring_suffix(text: &[u8], p: &[u8]) -> usize {
    longest_occurring_suffix_with_positions(text, p).0
}

/// (l, sorted start positions of p[m-l..] in text).  Naive filter: keep the end positions at which
/// the last s symbols of p match, for s = 1, 2, ... until none is left.
pub fn longest_occurring_suffix_with_positions(text: &[u8], p: &[u8]) -> (usize, Vec<usize>) {
    let m = p.len();
    if m == 0 {
        return (0, vec![]);
    }
    // ends[i] = index of the last symbol of a candidate occurrence
    let mut ends: Vec<usize> = (0..text.len()).filter(|&e| text[e] == p[m - 1]).collect();
    if ends.is_empty() {
        return (0, vec![]);
    }
    let mut l = 1;
    while l < m {
        let c = p[m - 1 - l];
        let next: Vec<usize> = ends.iter().copied().filter(|&e| e >= l && text[e - l] == c).collect();
        if next.is_empty() {
            break;
        }
        ends = next;
        l += 1;
    }
    (l, ends.into_iter().map(|e| e + 1 - l).collect())
}

// ------------------------------------------------------------------------------------------------
// non-triviality helpers
// ------------------------------------------------------------------------------------------------

/// some factor of length 2 occurs at two different positions
pub fn has_repeated_factor2(text: &[u8]) -> bool {
    if text.len() < 3 {
        return false;
    }
    let mut pairs: Vec<u16> = text.windows(2).map(|w| (w[0] as u16) << 8 | w[1] as u16).collect();
    pairs.sort_unstable();
    pairs.windows(2).any(|w| w[0] == w[1])
}

/// DESIGN 2.6 rule for C03-C05
pub fn nontrivial_text(text: &[u8]) -> bool {
    sentinel_count(text) >= 2 || has_repeated_factor2(text)
}

/// How many levels of SA-IS recursion a text forces (a level is entered when two LMS substrings
/// are equal).  Statistic only (evidence counter); computed on comparison keys so that sentinel
/// occurrences are distinct symbols.  Independent re-derivation: L/S types, LMS substrings named
/// by their rank under (symbol, type) lexicographic order.
pub fn sais_recursion_depth(keys: &[u32]) -> usize {
    let mut t: Vec<u32> = keys.to_vec();
    let mut depth = 0;
    loop {
        let n = t.len();
        if n < 2 {
            return depth;
        }
        let mut is_s = vec![false; n];
        is_s[n - 1] = true;
        for p in (0..n - 1).rev() {
            is_s[p] = if t[p] == t[p + 1] { is_s[p + 1] } else { t[p] < t[p + 1] };
        }
        let lms: Vec<usize> = (1..n).filter(|&p| is_s[p] && !is_s[p - 1]).collect();
        if lms.len() < 2 {
            return depth;
        }
        // LMS substring i = t[lms[i] ..= lms[i+1]] (the last one is the final symbol alone)
        let subs: Vec<Vec<(u32, bool)>> = (0..lms.len())
            .map(|i| {
                let end = if i + 1 < lms.len() { lms[i + 1] } else { lms[i] };
                (lms[i]..=end).map(|p| (t[p], is_s[p])).collect()
            })
            .collect();
        let mut sorted: Vec<&Vec<(u32, bool)>> = subs.iter().collect();
        sorted.sort();
        sorted.dedup();
        if sorted.len() == subs.len() {
            return depth;
        }
        depth += 1;
        t = subs
            .iter()
            .map(|s| sorted.binary_search(&s).unwrap() as u32)
            .collect();
    }
}

// ------------------------------------------------------------------------------------------------
// boundary families (abstract digits 1,2 = a,b; returned as complete texts over an embedding)
// ------------------------------------------------------------------------------------------------

fn is_primitive(u: &[u8]) -> bool {
    let n = u.len();
    !(1..n).any(|d| n % d == 0 && (0..n).all(|i| u[i] == u[i % d]))
}

fn fibonacci_words(max_len: usize) -> Vec<Vec<u8>> {
    let mut out = vec![];
    let (mut a, mut b): (Vec<u8>, Vec<u8>) = (vec![2], vec![1]); // "b", "a"
    while b.len() <= max_len {
        out.push(b.clone());
        let mut c = b.clone();
        c.extend_from_slice(&a);
        a = b;
        b = c;
    }
    out
}

fn thue_morse(len: usize) -> Vec<u8> {
    (0..len).map(|i| 1 + (i.count_ones() % 2) as u8).collect()
}

/// Repetitive words over {a,b} (digits 1,2) that force SA-IS to recurse on equal LMS substrings:
/// cuts of u^r for primitive u, Fibonacci words, Thue-Morse prefixes, and long runs that push the
/// number of LMS substrings across 255 (u8 -> u16 reduced text).
pub fn family_words(tier: Tier) -> Vec<Vec<u8>> {
    let mut out: Vec<Vec<u8>> = vec![];
    let umax = tier.pick(4, 5);
    let mut us: Vec<Vec<u8>> = crate::gen::strings(&[1, 2], 1, umax)
        .into_iter()
        .filter(|u| is_primitive(u))
        .collect();
    us.push(vec![1, 2, 1, 1, 2]); // abaab
    us.push(vec![1, 1, 2, 1, 2]); // aabab
    us.sort();
    us.dedup();
    let mut lens: Vec<usize> = match tier {
        Tier::Quick => (13..=40).collect(),
        Tier::Thorough => {
            let mut v: Vec<usize> = (13..=130).collect();
            v.extend((131..=299).step_by(3));
            v
        }
    };
    lens.extend([47, 48, 63, 64, 65, 96, 127, 128, 129, 191, 200, 255, 256, 257, 299]);
    lens.sort();
    lens.dedup();
    for u in &us {
        for &l in &lens {
            out.push(crate::gen::periodic(u, l));
        }
    }
    for w in fibonacci_words(tier.pick(233, 610)) {
        if w.len() >= 8 {
            let mut r = w.clone();
            r.reverse();
            out.push(r);
            out.push(w);
        }
    }
    for k in 4..=tier.pick(8, 9) {
        out.push(thue_morse(1 << k));
        out.push(thue_morse((1 << k) - 1));
    }
    // > 255 LMS substrings: the reduced text no longer fits u8
    for r in [253usize, 254, 255, 256, 257] {
        out.push(crate::gen::periodic(&[2, 1], 2 * r)); // (ba)^r
        if tier == Tier::Thorough {
            out.push(crate::gen::periodic(&[1, 2], 2 * r)); // (ab)^r
            out.push(crate::gen::periodic(&[2, 1, 1], 3 * r)); // (baa)^r
        }
    }
    if tier == Tier::Thorough {
        out.push(crate::gen::periodic(&[2, 1, 2, 2, 1], 5 * 260));
    }
    out.sort();
    out.dedup();
    out
}

/// Sentinel layouts of one family word w (digits): w$ ; and for |w| <= 160 the multi-sequence
/// layouts w$w$, w$rev(w)$, w$w$w$ and w cut in the middle by a sentinel.
pub fn family_layouts(w: &[u8]) -> Vec<Vec<u8>> {
    let mut out = vec![w.to_vec()];
    if w.len() <= 160 {
        let join = |parts: &[&[u8]]| -> Vec<u8> {
            let mut v = vec![];
            for (i, p) in parts.iter().enumerate() {
                if i > 0 {
                    v.push(0);
                }
                v.extend_from_slice(p);
            }
            v
        };
        let mut rev = w.to_vec();
        rev.reverse();
        out.push(join(&[w, w]));
        out.push(join(&[w, &rev]));
        out.push(join(&[w, w, w]));
        let h = w.len() / 2;
        out.push(join(&[&w[..h], &w[h..]]));
        out.push(join(&[w, &[], w])); // adjacent sentinels
    }
    out
}

/// All family texts of a tier, as bodies (digits, without the final sentinel), deduplicated.
/// Bodies no longer than `longer_than` are left out (they belong to the caller's complete sweep).
pub fn family_bodies(tier: Tier, longer_than: usize) -> Vec<Vec<u8>> {
    let mut out = vec![];
    for w in family_words(tier) {
        out.extend(family_layouts(&w));
    }
    out.retain(|b| b.len() > longer_than);
    out.sort_by(|a, b| (a.len(), a).cmp(&(b.len(), b)));
    out.dedup();
    out
}

fn gcd(a: usize, b: usize) -> usize {
    if b == 0 {
        a
    } else {
        gcd(b, a % b)
    }
}

/// Texts around the u8/u16 boundary of the SA-IS rank transform: `alphabet.len() + #sentinels`
/// in 253..=258 (the subject switches to u16 above 255), built from two stride permutations of d
/// distinct byte values with s sentinel occurrences, plus the full byte alphabet (d = 255).
/// Returned as literal byte texts (sentinel = 0x00 or the byte just below the lowest value).
pub fn wide_alphabet_texts(tier: Tier) -> Vec<Vec<u8>> {
    let mut out = vec![];
    let totals: Vec<usize> = vec![253, 254, 255, 256, 257, 258];
    let mut shapes: Vec<(usize, usize)> = vec![]; // (d distinct non-sentinel values, s sentinels)
    for &a in &totals {
        for s in [1usize, 2, 3] {
            let d = a - 1 - s;
            if d <= 255 {
                shapes.push((d, s));
            }
        }
    }
    for s in [1usize, 2, 3, 5] {
        shapes.push((255, s));
    }
    shapes.sort();
    shapes.dedup();
    for (d, s) in shapes {
        let strides: Vec<(usize, usize)> = match tier {
            Tier::Quick => vec![(1, 1), (7, d - 1)],
            Tier::Thorough => vec![(1, 1), (7, d - 1), (d - 1, d - 1), (11, 7)],
        };
        for (g1, g2) in strides {
            let fix = |mut g: usize| {
                while gcd(g, d) != 1 {
                    g += 1;
                }
                g
            };
            let (g1, g2) = (fix(g1), fix(g2));
            for top_aligned in [false, true] {
                // values lo..lo+d, sentinel = lo-1
                let lo: usize = if top_aligned { 256 - d } else { 1 };
                if top_aligned && lo == 1 {
                    continue;
                }
                let sent = (lo - 1) as u8;
                let mut body: Vec<u8> = vec![];
                for i in 0..d {
                    body.push((lo + (i * g1) % d) as u8);
                }
                for i in 0..d {
                    body.push((lo + (i * g2) % d) as u8);
                }
                // s-1 interior sentinels at evenly spaced cut points, one at the end
                let mut text = vec![];
                let parts = s;
                for (i, &b) in body.iter().enumerate() {
                    text.push(b);
                    for c in 1..parts {
                        if i + 1 == c * body.len() / parts {
                            text.push(sent);
                        }
                    }
                }
                text.push(sent);
                out.push(text);
            }
        }
    }
    out.sort();
    out.dedup();
    out
}

#[cfg(test)]
mod tests {
    use super::*;
    #[test]
    fn sa_oracles_agree() {
        for_each_body(3, 0, 6, 0, 1, |_, b| {
            let t = text_of_body(b, &ASCII);
            for pi in [Pi::Desc, Pi::Asc] {
                let sa = naive_sa(&t, pi);
                assert_eq!(check_sa(&t, &sa), Ok(()));
            }
            assert_eq!(sus_by_definition(&t), sus_by_lce_table(&t));
        });
    }
}
