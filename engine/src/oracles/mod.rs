// reference models shared between properties
