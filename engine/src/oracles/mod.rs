// reference models shared between properties
pub mod align;
pub mod edit;
pub mod hmm;
pub mod text_index;
