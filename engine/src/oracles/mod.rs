// reference models shared between properties
pub mod align;
