//! Edit-distance reference models shared by C09 and C10.
//!
//! * `EqModel` — the generalised symbol equality of `MyersBuilder`
//!   (`eq(p,t) = p==t  or  t in ambig(p)  or  t in wildcards`);
//! * `semiglobal` — column-wise semiglobal DP (free start in the text): D[m][i] for every text end i;
//! * `levenshtein` / `hamming` — textbook global distances;
//! * `check_path` — validator for an alignment path reported for a hit.
//!
//! Everything is computed in u64 on plain vectors; nothing here can overflow where the subject might.
#![allow(dead_code)]

use bio::alignment::AlignmentOperation;

/// Symbol equality under an ambiguity table and text wildcards.
#[derive(Clone, Debug, Default)]
pub struct EqModel {
    /// (pattern symbol, text symbols it additionally matches)
    pub ambig: Vec<(u8, Vec<u8>)>,
    /// text symbols that match every pattern symbol
    pub wildcards: Vec<u8>,
}

impl EqModel {
    pub fn plain() -> EqModel {
        EqModel::default()
    }
    #[inline]
    pub fn eq(&self, p: u8, t: u8) -> bool {
        if p == t {
            return true;
        }
        if self.wildcards.contains(&t) {
            return true;
        }
        self.ambig
            .iter()
            .any(|(sym, eqs)| *sym == p && eqs.contains(&t))
    }
}

/// D[m][i] (i = 0-based text end position) of the semiglobal DP with substitution cost
/// `cost(p_j, t_i)` and indel cost 1; the pattern must be consumed completely, the match may start
/// anywhere in the text (row 0 is all zeros).
pub fn semiglobal(p: &[u8], t: &[u8], cost: impl Fn(u8, u8) -> u64) -> Vec<u64> {
    let m = p.len();
    let mut col: Vec<u64> = (0..=m as u64).collect();
    let mut out = Vec::with_capacity(t.len());
    for &c in t {
        let mut diag = col[0];
        col[0] = 0;
        for j in 1..=m {
            let up_left = diag + cost(p[j - 1], c);
            let left = col[j] + 1;
            let up = col[j - 1] + 1;
            diag = col[j];
            col[j] = up_left.min(left).min(up);
        }
        out.push(col[m]);
    }
    out
}

pub fn semiglobal_eq(p: &[u8], t: &[u8], eq: &EqModel) -> Vec<u64> {
    semiglobal(p, t, |a, b| !eq.eq(a, b) as u64)
}

/// the list a matcher has to report for threshold k: (end, distance) in text order
pub fn expected_hits(d: &[u64], k: u64) -> Vec<(usize, u64)> {
    d.iter()
        .cloned()
        .enumerate()
        .filter(|&(_, x)| x <= k)
        .collect()
}

/// global edit distance between a (pattern side) and b (text side) under `eq`, unit costs
pub fn levenshtein_eq(a: &[u8], b: &[u8], eq: &EqModel) -> u64 {
    let mut col: Vec<u64> = (0..=a.len() as u64).collect();
    for &c in b {
        let mut diag = col[0];
        col[0] += 1;
        for j in 1..=a.len() {
            let v = (diag + !eq.eq(a[j - 1], c) as u64)
                .min(col[j] + 1)
                .min(col[j - 1] + 1);
            diag = col[j];
            col[j] = v;
        }
    }
    col[a.len()]
}

/// textbook Levenshtein distance (full matrix, deliberately the slow obvious version)
pub fn levenshtein(a: &[u8], b: &[u8]) -> u64 {
    let (n, m) = (a.len(), b.len());
    let mut d = vec![vec![0u64; m + 1]; n + 1];
    for i in 0..=n {
        d[i][0] = i as u64;
    }
    for j in 0..=m {
        d[0][j] = j as u64;
    }
    for i in 1..=n {
        for j in 1..=m {
            let sub = d[i - 1][j - 1] + (a[i - 1] != b[j - 1]) as u64;
            d[i][j] = sub.min(d[i - 1][j] + 1).min(d[i][j - 1] + 1);
        }
    }
    d[n][m]
}

pub fn hamming(a: &[u8], b: &[u8]) -> u64 {
    assert_eq!(a.len(), b.len());
    a.iter().zip(b).filter(|(x, y)| x != y).count() as u64
}

/// What is wrong with a reported alignment; `class` is a stable symptom name for finding keys.
#[derive(Debug, Clone)]
pub struct PathError {
    pub class: &'static str,
    pub detail: String,
}

fn perr(class: &'static str, detail: String) -> Result<(), PathError> {
    Err(PathError { class, detail })
}

/// Validate a hit (start, end_excl, dist, ops) of pattern p in text t:
/// the path consumes exactly p and t[start..end_excl); Match only on equal symbols (under `eq`),
/// Subst only on unequal ones; the number of non-match operations is `dist`; the edit distance
/// between p and t[start..end_excl) is `dist`.
pub fn check_path(
    p: &[u8],
    t: &[u8],
    start: usize,
    end_excl: usize,
    dist: u64,
    ops: &[AlignmentOperation],
    eq: &EqModel,
) -> Result<(), PathError> {
    use AlignmentOperation::*;
    if start > end_excl || end_excl > t.len() {
        return perr(
            "range-outside-text",
            format!("range {}..{} in text of length {}", start, end_excl, t.len()),
        );
    }
    let (mut i, mut j) = (0usize, start);
    let mut cost = 0u64;
    for (n, op) in ops.iter().enumerate() {
        match op {
            Match => {
                if i >= p.len() || j >= end_excl {
                    return perr("path-overruns", format!("op #{} Match beyond the end", n));
                }
                if !eq.eq(p[i], t[j]) {
                    return perr(
                        "match-on-unequal-symbols",
                        format!("op #{} Match on p[{}]={:?} t[{}]={:?}", n, i, p[i] as char, j, t[j] as char),
                    );
                }
                i += 1;
                j += 1;
            }
            Subst => {
                if i >= p.len() || j >= end_excl {
                    return perr("path-overruns", format!("op #{} Subst beyond the end", n));
                }
                if eq.eq(p[i], t[j]) {
                    return perr(
                        "subst-on-equal-symbols",
                        format!("op #{} Subst on p[{}]={:?} t[{}]={:?}", n, i, p[i] as char, j, t[j] as char),
                    );
                }
                i += 1;
                j += 1;
                cost += 1;
            }
            Ins => {
                // pattern symbol without text symbol
                if i >= p.len() {
                    return perr("path-overruns", format!("op #{} Ins beyond the pattern", n));
                }
                i += 1;
                cost += 1;
            }
            Del => {
                // text symbol without pattern symbol
                if j >= end_excl {
                    return perr("path-overruns", format!("op #{} Del beyond the hit range", n));
                }
                j += 1;
                cost += 1;
            }
            other => {
                return perr("clip-operation", format!("op #{} is {:?}", n, other));
            }
        }
    }
    if i != p.len() || j != end_excl {
        return perr(
            "path-does-not-consume-pattern-and-range",
            format!(
                "consumed {} of {} pattern symbols and text up to {} of {}..{}",
                i,
                p.len(),
                j,
                start,
                end_excl
            ),
        );
    }
    if cost != dist {
        return perr(
            "path-cost-differs-from-distance",
            format!("path has {} non-match operations, reported distance {}", cost, dist),
        );
    }
    let e = levenshtein_eq(p, &t[start..end_excl], eq);
    if e != dist {
        return perr(
            "substring-distance-differs",
            format!(
                "edit distance between pattern and t[{}..{}) is {}, reported {}",
                start, end_excl, e, dist
            ),
        );
    }
    Ok(())
}

/// Validate only (start, end, dist) without a path.
pub fn check_range(
    p: &[u8],
    t: &[u8],
    start: usize,
    end_excl: usize,
    dist: u64,
    eq: &EqModel,
) -> Result<(), PathError> {
    if start > end_excl || end_excl > t.len() {
        return perr(
            "range-outside-text",
            format!("range {}..{} in text of length {}", start, end_excl, t.len()),
        );
    }
    let e = levenshtein_eq(p, &t[start..end_excl], eq);
    if e != dist {
        return perr(
            "substring-distance-differs",
            format!(
                "edit distance between pattern and t[{}..{}) is {}, reported {}",
                start, end_excl, e, dist
            ),
        );
    }
    Ok(())
}
