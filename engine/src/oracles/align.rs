//! Reference model for C01/C02: affine-gap alignment of sub-ranges plus clip penalties.
//!
//! Documented model (src/alignment/pairwise/mod.rs): choose a sub-range of x and a sub-range of y,
//! align them globally with affine gaps (a maximal run of Ins, or of Del, of length L costs
//! gap_open + L*gap_extend), and pay the clip penalty of every NON-EMPTY clipped end; a penalty of
//! MIN_SCORE means "this end may not be clipped".
#![allow(dead_code)]

use bio::alignment::pairwise::MIN_SCORE;
use bio::alignment::{Alignment, AlignmentOperation};
use serde::{Deserialize, Serialize};

pub const NEG: i64 = i64::MIN / 4;

/// substitution function over concrete bytes; `emb` lists the bytes that play the roles a, b, c
#[derive(Clone, Copy, Debug, Serialize, Deserialize, PartialEq, Eq, Hash)]
pub struct Subst {
    /// 0: +1/-1   1: +2/-3   2: 0/-1   3: asymmetric table f(a,a)=2 f(b,b)=1 f(c,c)=3 f(a,b)=-1 f(b,a)=-3, others -2
    pub kind: u8,
    pub emb: [u8; 3],
}

impl Subst {
    #[inline]
    pub fn score(&self, a: u8, b: u8) -> i32 {
        match self.kind {
            0 => {
                if a == b {
                    1
                } else {
                    -1
                }
            }
            1 => {
                if a == b {
                    2
                } else {
                    -3
                }
            }
            2 => {
                if a == b {
                    0
                } else {
                    -1
                }
            }
            _ => {
                let ia = self.emb.iter().position(|&e| e == a).unwrap_or(3);
                let ib = self.emb.iter().position(|&e| e == b).unwrap_or(3);
                match (ia, ib) {
                    (0, 0) => 2,
                    (1, 1) => 1,
                    (2, 2) => 3,
                    (0, 1) => -1,
                    (1, 0) => -3,
                    _ => -2,
                }
            }
        }
    }
    pub fn match_scores(&self) -> Option<(i32, i32)> {
        match self.kind {
            0 => Some((1, -1)),
            1 => Some((2, -3)),
            2 => Some((0, -1)),
            _ => None,
        }
    }
}

#[derive(Clone, Copy, Debug, Serialize, Deserialize, PartialEq, Eq, Hash)]
pub struct Scheme {
    pub subst: Subst,
    pub gap_open: i32,
    pub gap_extend: i32,
    pub xclip_prefix: i32,
    pub xclip_suffix: i32,
    pub yclip_prefix: i32,
    pub yclip_suffix: i32,
}

impl Scheme {
    pub fn with_clips(&self, c: [i32; 4]) -> Scheme {
        Scheme {
            xclip_prefix: c[0],
            xclip_suffix: c[1],
            yclip_prefix: c[2],
            yclip_suffix: c[3],
            ..*self
        }
    }
    pub fn clips(&self) -> [i32; 4] {
        [
            self.xclip_prefix,
            self.xclip_suffix,
            self.yclip_prefix,
            self.yclip_suffix,
        ]
    }
}

/// G[xs][ys][xe][ye] for all 0<=xs<=xe<=m, 0<=ys<=ye<=n : best affine global alignment score of
/// x[xs..xe) against y[ys..ye).  One Gotoh DP per start pair yields all end pairs.
pub struct RangeTable {
    pub m: usize,
    pub n: usize,
    g: Vec<i64>,
}

impl RangeTable {
    #[inline]
    fn idx(&self, xs: usize, ys: usize, xe: usize, ye: usize) -> usize {
        ((xs * (self.n + 1) + ys) * (self.m + 1) + xe) * (self.n + 1) + ye
    }
    #[inline]
    pub fn get(&self, xs: usize, ys: usize, xe: usize, ye: usize) -> i64 {
        self.g[self.idx(xs, ys, xe, ye)]
    }

    pub fn new(x: &[u8], y: &[u8], subst: &Subst, gap_open: i32, gap_extend: i32) -> RangeTable {
        let (m, n) = (x.len(), y.len());
        let (go, ge) = (gap_open as i64, gap_extend as i64);
        let mut t = RangeTable {
            m,
            n,
            g: vec![NEG; (m + 1) * (n + 1) * (m + 1) * (n + 1)],
        };
        let w = n + 1;
        let mut mm = vec![NEG; (m + 1) * w];
        let mut ii = vec![NEG; (m + 1) * w];
        let mut dd = vec![NEG; (m + 1) * w];
        for xs in 0..=m {
            for ys in 0..=n {
                for v in mm.iter_mut() {
                    *v = NEG;
                }
                for v in ii.iter_mut() {
                    *v = NEG;
                }
                for v in dd.iter_mut() {
                    *v = NEG;
                }
                mm[xs * w + ys] = 0;
                for i in xs..=m {
                    for j in ys..=n {
                        let c = i * w + j;
                        if i > xs {
                            // Ins consumes x[i-1]
                            let up = (i - 1) * w + j;
                            let open = mm[up].max(dd[up]) + go + ge;
                            ii[c] = (ii[up] + ge).max(open);
                        }
                        if j > ys {
                            let left = i * w + j - 1;
                            let open = mm[left].max(ii[left]) + go + ge;
                            dd[c] = (dd[left] + ge).max(open);
                        }
                        if i > xs && j > ys {
                            let d = (i - 1) * w + j - 1;
                            let s = subst.score(x[i - 1], y[j - 1]) as i64;
                            mm[c] = mm[d].max(ii[d]).max(dd[d]) + s;
                        }
                        let best = mm[c].max(ii[c]).max(dd[c]);
                        let k = t.idx(xs, ys, i, j);
                        t.g[k] = best;
                    }
                }
            }
        }
        t
    }

    /// optimum of the documented model under the four clip penalties
    pub fn optimum(&self, clips: [i32; 4]) -> i64 {
        let (m, n) = (self.m, self.n);
        let forbidden = |p: i32| p <= MIN_SCORE / 2;
        let mut best = NEG;
        for xs in 0..=m {
            if xs > 0 && forbidden(clips[0]) {
                break;
            }
            for xe in xs..=m {
                if xe < m && forbidden(clips[1]) {
                    continue;
                }
                for ys in 0..=n {
                    if ys > 0 && forbidden(clips[2]) {
                        break;
                    }
                    for ye in ys..=n {
                        if ye < n && forbidden(clips[3]) {
                            continue;
                        }
                        let mut pen = 0i64;
                        if xs > 0 {
                            pen += clips[0] as i64;
                        }
                        if xe < m {
                            pen += clips[1] as i64;
                        }
                        if ys > 0 {
                            pen += clips[2] as i64;
                        }
                        if ye < n {
                            pen += clips[3] as i64;
                        }
                        let g = self.get(xs, ys, xe, ye);
                        if g + pen > best {
                            best = g + pen;
                        }
                    }
                }
            }
        }
        best
    }
}

pub fn optimum(x: &[u8], y: &[u8], s: &Scheme) -> i64 {
    RangeTable::new(x, y, &s.subst, s.gap_open, s.gap_extend).optimum(s.clips())
}

#[derive(Clone, Copy, PartialEq, Eq, Debug)]
pub enum ClipOps {
    /// custom mode: Xclip/Yclip operations account for the unaligned ends
    Explicit,
    /// standard modes: no clip operations may appear, clipped ends are implicit in the coordinates
    Filtered,
}

pub struct PathCheck {
    /// strictly recomputed score (maximal run of Ins / of Del = one gap; clip operations do not
    /// interrupt a run)
    pub strict: i64,
    /// number of aligned-operation gaps, clip usage etc. for non-triviality rules
    pub has_gap: bool,
    pub has_clip: bool,
    /// an Ins run (resp. Del run) that has a clip operation between two of its members
    pub ins_run_split_by_clip: bool,
    pub del_run_split_by_clip: bool,
    /// an Ins run of length >= 2 located where y is exhausted before a non-empty y suffix clip
    /// (the shape the split run takes once clip operations have been filtered out)
    pub ins_run_at_clipped_yend: bool,
    pub del_run_at_clipped_xend: bool,
    /// the operation list contains a zero-length clip operation (banded aligner only)
    pub has_zero_len_clip: bool,
}

/// Cursor walk over the operations.  `tolerate_zero_len_clips`: banded aligner emits `Yclip(0)`.
pub fn validate(
    al: &Alignment,
    x: &[u8],
    y: &[u8],
    s: &Scheme,
    clip_ops: ClipOps,
    tolerate_zero_len_clips: bool,
) -> Result<PathCheck, String> {
    use AlignmentOperation::*;
    let (m, n) = (x.len(), y.len());
    if al.xlen != m || al.ylen != n {
        return Err(format!("xlen/ylen {}/{} but inputs have {}/{}", al.xlen, al.ylen, m, n));
    }
    if !(al.xstart <= al.xend && al.xend <= m && al.ystart <= al.yend && al.yend <= n) {
        return Err(format!(
            "coordinates out of order/range: x {}..{} of {}, y {}..{} of {}",
            al.xstart, al.xend, m, al.ystart, al.yend, n
        ));
    }
    let custom = clip_ops == ClipOps::Explicit;
    let (mut i, mut j) = if custom { (0, 0) } else { (al.xstart, al.ystart) };
    let (mut xdone, mut ydone) = (false, false);
    let (mut xpre, mut ypre) = (false, false);
    let mut score: i64 = 0;
    let mut last_aligned: Option<AlignmentOperation> = None;
    let mut clip_since_last_aligned = false;
    let mut pc = PathCheck {
        strict: 0,
        has_gap: false,
        has_clip: false,
        ins_run_split_by_clip: false,
        del_run_split_by_clip: false,
        ins_run_at_clipped_yend: false,
        del_run_at_clipped_xend: false,
        has_zero_len_clip: false,
    };
    for op in &al.operations {
        match *op {
            Xclip(k) => {
                if !custom {
                    return Err("clip operation in a standard-mode alignment".into());
                }
                if k == 0 {
                    if tolerate_zero_len_clips {
                        pc.has_zero_len_clip = true;
                        continue;
                    }
                    return Err("zero-length Xclip".into());
                }
                pc.has_clip = true;
                clip_since_last_aligned = true;
                if i == 0 && !xpre && al.xstart > 0 && k == al.xstart {
                    xpre = true;
                    i = k;
                } else if i == al.xend && !xdone && k == m - al.xend {
                    xdone = true;
                    i = m;
                } else {
                    return Err(format!(
                        "Xclip({}) at x cursor {} inconsistent with xstart={} xend={} m={}",
                        k, i, al.xstart, al.xend, m
                    ));
                }
            }
            Yclip(k) => {
                if !custom {
                    return Err("clip operation in a standard-mode alignment".into());
                }
                if k == 0 {
                    if tolerate_zero_len_clips {
                        pc.has_zero_len_clip = true;
                        continue;
                    }
                    return Err("zero-length Yclip".into());
                }
                pc.has_clip = true;
                clip_since_last_aligned = true;
                if j == 0 && !ypre && al.ystart > 0 && k == al.ystart {
                    ypre = true;
                    j = k;
                } else if j == al.yend && !ydone && k == n - al.yend {
                    ydone = true;
                    j = n;
                } else {
                    return Err(format!(
                        "Yclip({}) at y cursor {} inconsistent with ystart={} yend={} n={}",
                        k, j, al.ystart, al.yend, n
                    ));
                }
            }
            Match | Subst => {
                if xdone || ydone || i >= al.xend || j >= al.yend || i < al.xstart || j < al.ystart {
                    return Err(format!("Match/Subst outside the aligned ranges at ({},{})", i, j));
                }
                let eq = x[i] == y[j];
                if (*op == Match) != eq {
                    return Err(format!(
                        "{:?} at ({},{}) but symbols are {}",
                        op,
                        i,
                        j,
                        if eq { "equal" } else { "unequal" }
                    ));
                }
                score += s.subst.score(x[i], y[j]) as i64;
                i += 1;
                j += 1;
                last_aligned = Some(*op);
                clip_since_last_aligned = false;
            }
            Ins => {
                if xdone || i >= al.xend || i < al.xstart {
                    return Err(format!("Ins outside the aligned x range at {}", i));
                }
                pc.has_gap = true;
                if last_aligned == Some(Ins) {
                    score += s.gap_extend as i64;
                    if clip_since_last_aligned {
                        pc.ins_run_split_by_clip = true;
                    }
                    if j == al.yend && al.yend < n {
                        pc.ins_run_at_clipped_yend = true;
                    }
                } else {
                    score += (s.gap_open + s.gap_extend) as i64;
                }
                i += 1;
                last_aligned = Some(Ins);
                clip_since_last_aligned = false;
            }
            Del => {
                if ydone || j >= al.yend || j < al.ystart {
                    return Err(format!("Del outside the aligned y range at {}", j));
                }
                pc.has_gap = true;
                if last_aligned == Some(Del) {
                    score += s.gap_extend as i64;
                    if clip_since_last_aligned {
                        pc.del_run_split_by_clip = true;
                    }
                    if i == al.xend && al.xend < m {
                        pc.del_run_at_clipped_xend = true;
                    }
                } else {
                    score += (s.gap_open + s.gap_extend) as i64;
                }
                j += 1;
                last_aligned = Some(Del);
                clip_since_last_aligned = false;
            }
        }
    }
    if custom {
        if i != m || j != n {
            return Err(format!("operations consume ({},{}) of ({},{})", i, j, m, n));
        }
        if (al.xstart > 0) != xpre && al.xstart > 0 {
            return Err("xstart > 0 without an x prefix clip operation".into());
        }
    } else if i != al.xend || j != al.yend {
        return Err(format!(
            "operations end at ({},{}) but xend,yend = ({},{})",
            i, j, al.xend, al.yend
        ));
    }
    if al.xstart > 0 {
        score += s.xclip_prefix as i64;
        pc.has_clip = true;
    }
    if al.xend < m {
        score += s.xclip_suffix as i64;
        pc.has_clip = true;
    }
    if al.ystart > 0 {
        score += s.yclip_prefix as i64;
        pc.has_clip = true;
    }
    if al.yend < n {
        score += s.yclip_suffix as i64;
        pc.has_clip = true;
    }
    pc.strict = score;
    Ok(pc)
}

pub fn ops_string(al: &Alignment) -> String {
    format!(
        "score={} x[{}..{}) y[{}..{}) ops={:?}",
        al.score, al.xstart, al.xend, al.ystart, al.yend, al.operations
    )
}
