//! Reference model for C14: a discrete-emission HMM given by lattice numerators, evaluated by
//! enumeration of all S^T state paths in linear f64.  With denominators 2 or 4 every factor is
//! dyadic, so (for the bounds used: at most 2T+1 <= 13 factors, at most 3^5 paths) every product
//! and every partial sum is exact in f64; the oracle has no rounding of its own.

#[derive(Clone, Debug, PartialEq)]
pub struct Spec {
    pub s: usize,
    pub m: usize,
    /// common denominator of all numerators below
    pub den: u32,
    /// S x S, row-major numerators
    pub trans: Vec<u8>,
    /// S x M, row-major numerators
    pub em: Vec<u8>,
    /// S numerators
    pub init: Vec<u8>,
    /// optional S numerators
    pub end: Option<Vec<u8>>,
}

#[derive(Clone, Debug, Default)]
pub struct PathStats {
    /// sum over all paths of the joint probability (end factor included when the model has one)
    pub sum: f64,
    /// maximum over all paths of the joint probability (with end factor)
    pub max: f64,
    /// maximum over all paths of the joint probability computed WITHOUT the end factor
    pub max_no_end: f64,
    /// number of paths with positive joint probability (with end factor)
    pub positive_paths: u32,
    pub paths: u32,
}

impl Spec {
    #[inline]
    pub fn f(&self, k: u8) -> f64 {
        k as f64 / self.den as f64
    }
    pub fn trans_f(&self) -> Vec<f64> {
        self.trans.iter().map(|&k| self.f(k)).collect()
    }
    pub fn em_f(&self) -> Vec<f64> {
        self.em.iter().map(|&k| self.f(k)).collect()
    }
    pub fn init_f(&self) -> Vec<f64> {
        self.init.iter().map(|&k| self.f(k)).collect()
    }
    pub fn end_f(&self) -> Option<Vec<f64>> {
        self.end.as_ref().map(|e| e.iter().map(|&k| self.f(k)).collect())
    }

    /// joint probability of (path, obs) without the end factor
    pub fn joint_no_end(&self, path: &[usize], obs: &[usize]) -> f64 {
        let mut p = self.f(self.init[path[0]]) * self.f(self.em[path[0] * self.m + obs[0]]);
        for i in 1..obs.len() {
            p *= self.f(self.trans[path[i - 1] * self.s + path[i]]);
            p *= self.f(self.em[path[i] * self.m + obs[i]]);
        }
        p
    }

    /// joint probability of (path, obs): pi * prod a * prod b * end(last); end == 1 without end vector
    pub fn joint(&self, path: &[usize], obs: &[usize]) -> f64 {
        let p = self.joint_no_end(path, obs);
        match &self.end {
            Some(e) => p * self.f(e[path[obs.len() - 1]]),
            None => p,
        }
    }

    /// enumerate every state path of length |obs|
    pub fn brute(&self, obs: &[usize]) -> PathStats {
        let t = obs.len();
        let mut st = PathStats::default();
        let mut path = vec![0usize; t];
        loop {
            let pn = self.joint_no_end(&path, obs);
            let pe = match &self.end {
                Some(e) => pn * self.f(e[path[t - 1]]),
                None => pn,
            };
            st.paths += 1;
            st.sum += pe;
            if pe > st.max {
                st.max = pe;
            }
            if pn > st.max_no_end {
                st.max_no_end = pn;
            }
            if pe > 0.0 {
                st.positive_paths += 1;
            }
            // next path (odometer)
            let mut i = t;
            loop {
                if i == 0 {
                    return st;
                }
                i -= 1;
                path[i] += 1;
                if path[i] < self.s {
                    break;
                }
                path[i] = 0;
            }
        }
    }
}

/// all rows of `n` numerators over 0..=den whose sum is <= den (sub-stochastic rows), in
/// lexicographic order
pub fn substochastic_rows(n: usize, den: u32) -> Vec<Vec<u8>> {
    fn rec(n: usize, left: u32, cur: &mut Vec<u8>, out: &mut Vec<Vec<u8>>) {
        if cur.len() == n {
            out.push(cur.clone());
            return;
        }
        for k in 0..=left {
            cur.push(k as u8);
            rec(n, left - k, cur, out);
            cur.pop();
        }
    }
    let mut out = vec![];
    rec(n, den, &mut vec![], &mut out);
    out
}

/// all vectors of `n` numerators, each in 0..=den (no constraint on the sum)
pub fn free_vectors(n: usize, den: u32) -> Vec<Vec<u8>> {
    let mut out: Vec<Vec<u8>> = vec![vec![]];
    for _ in 0..n {
        let mut nxt = vec![];
        for v in &out {
            for k in 0..=den {
                let mut w = v.clone();
                w.push(k as u8);
                nxt.push(w);
            }
        }
        out = nxt;
    }
    out
}

/// all observation sequences over 0..m of length lo..=hi, shortest first
pub fn observation_sequences(m: usize, lo: usize, hi: usize) -> Vec<Vec<usize>> {
    let mut out = vec![];
    for l in lo..=hi {
        let total = (m as u64).pow(l as u32);
        for mut idx in 0..total {
            let mut o = vec![0usize; l];
            for i in (0..l).rev() {
                o[i] = (idx % m as u64) as usize;
                idx /= m as u64;
            }
            out.push(o);
        }
    }
    out
}
