//! Run one case in a forked child with an address-space cap and a wall-clock limit, so that a
//! subject that loops forever or allocates without bound can be observed and attributed without
//! taking the worker down.  Only used for input classes where that is a realistic outcome.

use serde::{de::DeserializeOwned, Serialize};
use std::time::{Duration, Instant};

pub enum ForkOutcome<T> {
    Done(T),
    /// killed by us after `limit`
    Timeout,
    /// died from a signal (SIGABRT after allocation failure, SIGSEGV on stack overflow, ...)
    Signal(i32),
    /// exited without delivering a result
    Exit(i32),
    /// fork/pipe failed: machinery problem
    Machinery(String),
}

pub fn run_forked<T, F>(f: F, mem_bytes: u64, limit: Duration) -> ForkOutcome<T>
where
    T: Serialize + DeserializeOwned,
    F: FnOnce() -> T,
{
    unsafe {
        let mut fds = [0i32; 2];
        if libc::pipe(fds.as_mut_ptr()) != 0 {
            return ForkOutcome::Machinery("pipe failed".into());
        }
        let pid = libc::fork();
        if pid < 0 {
            libc::close(fds[0]);
            libc::close(fds[1]);
            return ForkOutcome::Machinery("fork failed".into());
        }
        if pid == 0 {
            // child
            libc::close(fds[0]);
            let lim = libc::rlimit {
                rlim_cur: mem_bytes,
                rlim_max: mem_bytes,
            };
            libc::setrlimit(libc::RLIMIT_AS, &lim);
            let core = libc::rlimit {
                rlim_cur: 0,
                rlim_max: 0,
            };
            libc::setrlimit(libc::RLIMIT_CORE, &core);
            let r = std::panic::catch_unwind(std::panic::AssertUnwindSafe(f));
            let code = match r {
                Ok(v) => {
                    let s = serde_json::to_vec(&v).unwrap_or_default();
                    let mut off = 0usize;
                    while off < s.len() {
                        let n = libc::write(
                            fds[1],
                            s[off..].as_ptr() as *const libc::c_void,
                            s.len() - off,
                        );
                        if n <= 0 {
                            break;
                        }
                        off += n as usize;
                    }
                    0
                }
                Err(_) => 101,
            };
            libc::close(fds[1]);
            libc::_exit(code);
        }
        // parent
        libc::close(fds[1]);
        let flags = libc::fcntl(fds[0], libc::F_GETFL);
        libc::fcntl(fds[0], libc::F_SETFL, flags | libc::O_NONBLOCK);
        let start = Instant::now();
        let mut buf: Vec<u8> = Vec::new();
        let mut tmp = [0u8; 65536];
        let mut status: i32 = 0;
        let mut exited = false;
        let mut timed_out = false;
        loop {
            // drain pipe
            loop {
                let n = libc::read(fds[0], tmp.as_mut_ptr() as *mut libc::c_void, tmp.len());
                if n > 0 {
                    buf.extend_from_slice(&tmp[..n as usize]);
                } else {
                    break;
                }
            }
            if exited {
                break;
            }
            let w = libc::waitpid(pid, &mut status, libc::WNOHANG);
            if w == pid {
                exited = true;
                continue; // one more drain
            }
            if start.elapsed() > limit {
                libc::kill(pid, libc::SIGKILL);
                libc::waitpid(pid, &mut status, 0);
                timed_out = true;
                break;
            }
            let el = start.elapsed();
            std::thread::sleep(if el < Duration::from_millis(5) {
                Duration::from_micros(200)
            } else {
                Duration::from_millis(2)
            });
        }
        libc::close(fds[0]);
        if timed_out {
            return ForkOutcome::Timeout;
        }
        if libc::WIFSIGNALED(status) {
            return ForkOutcome::Signal(libc::WTERMSIG(status));
        }
        let code = libc::WEXITSTATUS(status);
        if code != 0 {
            return ForkOutcome::Exit(code);
        }
        match serde_json::from_slice::<T>(&buf) {
            Ok(v) => ForkOutcome::Done(v),
            Err(e) => ForkOutcome::Machinery(format!("child result unreadable: {}", e)),
        }
    }
}
