use bio::io::{bed, gff};
use bio::pattern_matching::myers::{long, Myers};
use bio::alignment::{Alignment, AlignmentOperation};
use bio::stats::LogProb;
use std::panic::{catch_unwind, AssertUnwindSafe};
use std::sync::Mutex;
use std::collections::BTreeMap;

#[derive(Debug, PartialEq, Clone)]
enum Line { Comment, Empty, Bad(String), Gff(Vec<String>), Bed(String, u64, u64, Vec<String>) }

fn classify_gff(line: &str) -> Line {
    if line.is_empty() { return Line::Empty; }
    if line.starts_with('#') { return Line::Comment; }
    let f: Vec<&str> = line.split('\t').collect();
    if f.len() != 9 { return Line::Bad(format!("{} columns", f.len())); }
    if f[3].parse::<u64>().is_err() || f[4].parse::<u64>().is_err() { return Line::Bad("number".into()); }
    if !matches!(f[7], "." | "0" | "1" | "2") { return Line::Bad("phase".into()); }
    Line::Gff(f.iter().map(|s| s.to_string()).collect())
}
fn classify_bed(line: &str) -> Line {
    if line.is_empty() { return Line::Empty; }
    if line.starts_with('#') { return Line::Comment; }
    let f: Vec<&str> = line.split('\t').collect();
    if f.len() < 3 { return Line::Bad(format!("{} columns", f.len())); }
    match (f[1].parse::<u64>(), f[2].parse::<u64>()) { (Ok(s), Ok(e)) => Line::Bed(f[0].to_string(), s, e, f[3..].iter().map(|s| s.to_string()).collect()), _ => Line::Bad("number".into()) }
}

fn main() {
    std::panic::set_hook(Box::new(|_| {}));
    let viol = Mutex::new(BTreeMap::<String, (usize, String)>::new());
    let report = |k: &str, d: String| { let mut v = viol.lock().unwrap(); let e = v.entry(k.to_string()).or_insert((0, d)); e.0 += 1; };
    let repl = [b'\t', b'\n', b'x', b'9', b'#', b'.', b'-', b'3'];
    // GFF corruption
    let base = b"chr1\tsrc\tgene\t3\t9\t.\t+\t0\tID=a;Note=b\nchr2\tsrc\texon\t10\t20\t5\t-\t.\tID=c\n".to_vec();
    let mut variants: Vec<Vec<u8>> = vec![];
    for cut in 0..=base.len() { variants.push(base[..cut].to_vec()); }
    for i in 0..base.len() { let mut v = base.clone(); v.remove(i); variants.push(v); for &r in &repl { if base[i] != r { let mut v = base.clone(); v[i] = r; variants.push(v); } } }
    println!("gff variants={}", variants.len());
    let mut stats = BTreeMap::<&str, usize>::new();
    for v in &variants {
        let text = String::from_utf8(v.clone()).unwrap();
        let lines: Vec<Line> = text.split('\n').map(classify_gff).filter(|l| !matches!(l, Line::Comment | Line::Empty)).collect();
        let r = catch_unwind(AssertUnwindSafe(|| { let mut rd = gff::Reader::new(&v[..], gff::GffType::GFF3); rd.records().take(10).map(|x| x.map_err(|e| e.to_string())).collect::<Vec<_>>() }));
        match r { Err(_) => report("gff-corrupt-panic", format!("{:?}", text)), Ok(items) => {
            if items.len() != lines.len() { report("gff-item-count", format!("{:?} items={} lines={:?}", text, items.len(), lines)); continue; }
            for (it, ln) in items.iter().zip(lines.iter()) { match (it, ln) {
                (Ok(rec), Line::Gff(f)) => { *stats.entry("ok-ok").or_insert(0) += 1; if rec.seqname() != f[0] || rec.source() != f[1] || rec.feature_type() != f[2] || rec.start().to_string() != f[3] || rec.end().to_string() != f[4] { report("gff-coerced-field", format!("{:?} rec={:?}", text, rec)); } }
                (Ok(rec), Line::Bad(why)) => report("gff-malformed-accepted", format!("{:?} why={} rec={:?}", text, why, rec)),
                (Err(_), Line::Bad(_)) => { *stats.entry("err-bad").or_insert(0) += 1; }
                (Err(e), Line::Gff(_)) => { *stats.entry("err-on-wellformed").or_insert(0) += 1; let _ = e; }
                _ => {} } } } }
    }
    println!("gff stats {:?}", stats);
    // BED corruption
    let base = b"chr1\t3\t9\tname\t0\t+\n#comment\nchr2\t10\t20\tn2\t5\t-\n".to_vec();
    let mut variants: Vec<Vec<u8>> = vec![];
    for cut in 0..=base.len() { variants.push(base[..cut].to_vec()); }
    for i in 0..base.len() { let mut v = base.clone(); v.remove(i); variants.push(v); for &r in &repl { if base[i] != r { let mut v = base.clone(); v[i] = r; variants.push(v); } } }
    let mut stats = BTreeMap::<&str, usize>::new();
    for v in &variants {
        let text = String::from_utf8(v.clone()).unwrap();
        let lines: Vec<Line> = text.split('\n').map(classify_bed).filter(|l| !matches!(l, Line::Comment | Line::Empty)).collect();
        let r = catch_unwind(AssertUnwindSafe(|| { let mut rd = bed::Reader::new(&v[..]); rd.records().take(10).map(|x| x.map_err(|e| e.to_string())).collect::<Vec<_>>() }));
        match r { Err(_) => report("bed-corrupt-panic", format!("{:?}", text)), Ok(items) => {
            if items.len() != lines.len() { report("bed-item-count", format!("{:?} items={:?} lines={:?}", text, items, lines)); continue; }
            for (it, ln) in items.iter().zip(lines.iter()) { match (it, ln) {
                (Ok(rec), Line::Bed(c, s, e, aux)) => { *stats.entry("ok-ok").or_insert(0) += 1; let got_aux: Vec<String> = (3..3 + aux.len() + 1).filter_map(|i| rec.aux(i).map(|s| s.to_string())).collect(); if rec.chrom() != c || rec.start() != *s || rec.end() != *e || &got_aux != aux { report("bed-coerced-field", format!("{:?} rec={:?}", text, rec)); } }
                (Ok(rec), Line::Bad(why)) => report("bed-malformed-accepted", format!("{:?} why={} rec={:?}", text, why, rec)),
                (Err(_), Line::Bad(_)) => { *stats.entry("err-bad").or_insert(0) += 1; }
                (Err(_), Line::Bed(..)) => { *stats.entry("err-on-wellformed").or_insert(0) += 1; }
                _ => {} } } } }
    }
    println!("bed stats {:?}", stats);
    // C10: lazy interleavings + stale refusal + reuse
    let pats: [&[u8]; 4] = [b"ab", b"aab", b"abab", b"aaaaaaaab"]; let texts: [&[u8]; 5] = [b"", b"a", b"abab", b"bbaabab", b"aaaaaaaaabaa"];
    for p in pats { for t in texts { for k in 0..=3usize {
        // reference via fresh eager
        let mut fresh = long::Myers::<u8>::new(p);
        let mut full: Vec<(usize, usize, usize, Vec<AlignmentOperation>)> = vec![]; { let mut m = fresh.find_all(t, k); let mut ops = vec![]; while let Some((s, e, d)) = m.next_path(&mut ops) { full.push((s, e, d, ops.clone())); } }
        // op alphabet: 0 = next, 1+e = path_at(e) for e in 0..=|t|
        let nops = t.len() + 2; let depth = 4;
        for mut idx in 0..nops.pow(depth) { let mut seq = vec![]; for _ in 0..depth { seq.push(idx % nops); idx /= nops; }
            let r = catch_unwind(AssertUnwindSafe(|| {
                let mut my = long::Myers::<u8>::new(p); let mut lz = my.find_all_lazy(t, k);
                let mut searched_to: Option<usize> = None; // last end returned by next (positions <= that are searched); after None returned, all searched
                let mut finished = false;
                for &op in &seq { if op == 0 { match lz.next() { Some((e, _)) => searched_to = Some(e), None => finished = true } } else { let e = op - 1; let mut ops = vec![]; let got = lz.path_at(e, &mut ops);
                    let searched = e < t.len() && (finished || searched_to.map(|s| e <= s).unwrap_or(false));
                    if !searched { // may only answer if that column was in fact already computed (next() scans past non-hits too) -- accept None or a correct answer
                        if let Some((s, d)) = got { if let Some(f) = full.iter().find(|f| f.1 == e + 1) { if (s, d) != (f.0, f.2) || ops != f.3 { return Err(format!("unsearched answer wrong e={}", e)); } } else if e >= t.len() { return Err(format!("answer beyond text e={}", e)); } }
                    } else if let Some(f) = full.iter().find(|f| f.1 == e + 1) { if got != Some((f.0, f.2)) || ops != f.3 { return Err(format!("searched hit mismatch e={} got {:?} {:?} exp {:?}", e, got, ops, f)); } }
                    else if got.is_none() { return Err(format!("searched non-hit refused e={}", e)); } } }
                Ok(())
            }));
            match r { Err(_) => report("lazy-panic", format!("p={:?} t={:?} k={} seq={:?}", p, t, k, seq)), Ok(Err(e)) => report("lazy-interleave", format!("p={:?} t={:?} k={} seq={:?}: {}", String::from_utf8_lossy(p), String::from_utf8_lossy(t), k, seq, e)), _ => {} }
        }
    }}}
    // reuse: one object, sequences of two searches (t1,k1,api1),(t2,k2,api2)
    for p in pats { let mut my = long::Myers::<u8>::new(p); let mut my64 = Myers::<u64>::new(p);
        for t1 in texts { for k1 in [0usize, 2, 9] { for api1 in 0..3 { for t2 in texts { for k2 in [0usize, 1, 3] {
            let run = |m: &mut long::Myers<u8>, t: &[u8], k: usize, api: usize| -> Vec<(usize, usize, usize, Vec<AlignmentOperation>)> { match api { 0 => m.find_all_end(t, k).map(|(e, d)| (0, e + 1, d, vec![])).collect(), 1 => { let mut out = vec![]; let mut mm = m.find_all(t, k); let mut ops = vec![]; while let Some((s, e, d)) = mm.next_path(&mut ops) { out.push((s, e, d, ops.clone())); } out }, _ => { let mut lz = m.find_all_lazy(t, k); let ends: Vec<_> = lz.by_ref().collect(); ends.into_iter().rev().map(|(e, d)| { let mut ops = vec![]; let (s, d2) = lz.path_at(e, &mut ops).unwrap(); assert_eq!(d, d2); (s, e + 1, d, ops) }).collect() } } };
            let r = catch_unwind(AssertUnwindSafe(|| { let _ = run(&mut my, t1, k1, api1); let a = run(&mut my, t2, k2, 1); let b = run(&mut my, t2, k2, 2); let mut f = long::Myers::<u8>::new(p); let fa = run(&mut f, t2, k2, 1); let mut f = long::Myers::<u8>::new(p); let fb = run(&mut f, t2, k2, 2);
                // also simple u64
                let _ : Vec<_> = my64.find_all(t1, k1.min(255) as u8).collect(); let s2: Vec<_> = my64.find_all(t2, k2 as u8).collect(); let fs: Vec<_> = Myers::<u64>::new(p).find_all(t2, k2 as u8).collect();
                (a == fa, b == fb, s2 == fs) }));
            match r { Err(_) => { report("reuse-panic", format!("p={:?} t1={:?} k1={} api1={} t2={:?} k2={}", p, t1, k1, api1, t2, k2)); my = long::Myers::<u8>::new(p); } Ok((x, y, z)) => if !(x && y && z) { report("reuse-mismatch", format!("p={:?} t1={:?} k1={} api1={} t2={:?} k2={} {:?}", String::from_utf8_lossy(p), String::from_utf8_lossy(t1), k1, api1, String::from_utf8_lossy(t2), k2, (x, y, z))); } }
        }}}}}
    }
    // C15 integration helpers vs linear quadrature
    let dens: [(&str, fn(f64) -> f64); 4] = [("uniform", |_| 0.5), ("tri", |x| 1.0 - (x - 1.0).abs()), ("exp", |x| (-x).exp()), ("gauss", |x| (-0.5 * (x - 1.0) * (x - 1.0) * 16.0).exp())];
    for (name, f) in dens { for n in [3usize, 5, 9, 33, 101] { let (a, b) = (0.0f64, 2.0f64);
        let xs: Vec<f64> = (0..n).map(|i| a + (b - a) * i as f64 / (n - 1) as f64).collect();
        let trap: f64 = xs.windows(2).map(|w| (f(w[0]) + f(w[1])) / 2.0 * (w[1] - w[0])).sum();
        let simp: f64 = { let h = (b - a) / (n - 1) as f64; let mut s = f(a) + f(b); for i in 1..n - 1 { s += f(xs[i]) * if i % 2 == 1 { 4.0 } else { 2.0 }; } s * h / 3.0 };
        let t = LogProb::ln_trapezoidal_integrate_exp(|_, x| LogProb(f(x).ln()), a, b, n).exp();
        let s = LogProb::ln_simpsons_integrate_exp(|_, x| LogProb(f(x).ln()), a, b, n).exp();
        let g = LogProb::ln_trapezoidal_integrate_grid_exp(|_, x| LogProb(f(x).ln()), &xs).exp();
        if ((t - trap) / trap).abs() > 0.005 { report("trapezoid", format!("{} n={} got {} exp {}", name, n, t, trap)); }
        if ((s - simp) / simp).abs() > 0.005 { report("simpson", format!("{} n={} got {} exp {}", name, n, s, simp)); }
        if ((g - trap) / trap).abs() > 0.005 { report("trapezoid-grid", format!("{} n={} got {} exp {}", name, n, g, trap)); }
    }}
    for (k, v) in viol.lock().unwrap().iter() { println!("{} count={} first={}", k, v.0, &v.1[..v.1.len().min(700)]); }
    println!("done");
}
