use bio::data_structures::interval_tree::{IntervalTree, ArrayBackedIntervalTree};
use bio::io::fasta;
use rayon::prelude::*;
use std::panic::{catch_unwind, AssertUnwindSafe};
use std::sync::Mutex;
use std::collections::BTreeMap;
use std::io::{self, Read, Seek, SeekFrom};

// fragmenting reader: returns at most chunk[i % len] bytes per read call
struct Frag { data: Vec<u8>, pos: u64, chunks: Vec<usize>, calls: usize }
impl Read for Frag { fn read(&mut self, buf: &mut [u8]) -> io::Result<usize> {
    let c = self.chunks[self.calls % self.chunks.len()]; self.calls += 1;
    let p = self.pos as usize; if p >= self.data.len() { return Ok(0); }
    let n = c.min(buf.len()).min(self.data.len() - p); buf[..n].copy_from_slice(&self.data[p..p+n]); self.pos += n as u64; Ok(n) } }
impl Seek for Frag { fn seek(&mut self, s: SeekFrom) -> io::Result<u64> { match s { SeekFrom::Start(o) => self.pos = o, SeekFrom::Current(d) => self.pos = (self.pos as i64 + d) as u64, SeekFrom::End(d) => self.pos = (self.data.len() as i64 + d) as u64 }; Ok(self.pos) } }

fn check_node(v: &serde_json::Value, count: &mut usize) -> Result<(i64, i64, i64, i64), String> {
    // returns (height, max, min_start, max_start)
    *count += 1;
    let iv = &v["interval"]; let start = iv["start"].as_i64().ok_or("start")?; let end = iv["end"].as_i64().ok_or("end")?;
    let mut h = 0; let mut mx = end; let mut lo = start; let mut hi = start;
    let mut hl = 0; let mut hr = 0;
    if !v["left"].is_null() { let (h1, m1, lo1, hi1) = check_node(&v["left"], count)?; hl = h1; mx = mx.max(m1); if hi1 > start { return Err("left ordering".into()); } lo = lo.min(lo1); }
    if !v["right"].is_null() { let (h1, m1, lo1, hi1) = check_node(&v["right"], count)?; hr = h1; mx = mx.max(m1); if lo1 < start { return Err("right ordering".into()); } hi = hi.max(hi1); }
    h = h.max(hl).max(hr) + 1;
    if (hl - hr).abs() > 1 { return Err(format!("unbalanced {} vs {}", hl, hr)); }
    if v["height"].as_i64() != Some(h) { return Err("height field".into()); }
    if v["max"].as_i64() != Some(mx) { return Err("max field".into()); }
    Ok((h, mx, lo, hi))
}

fn main() {
    std::panic::set_hook(Box::new(|_| {}));
    let viol = Mutex::new(BTreeMap::<String, (usize, String)>::new());
    let report = |k: &str, d: String| { let mut v = viol.lock().unwrap(); let e = v.entry(k.to_string()).or_insert((0, d)); e.0 += 1; };
    // ---- AVL: all insertion sequences of depth 6 over intervals within [0,4)
    let mut ivs = vec![]; for a in 0..4i64 { for b in a+1..=4 { ivs.push((a, b)); } }
    let depth = 6; let k = ivs.len();
    println!("intervals={} seqs={}", k, k.pow(depth as u32));
    (0..k.pow(depth as u32)).into_par_iter().for_each(|mut idx| {
        let mut seq = vec![]; for _ in 0..depth { seq.push(ivs[idx % k]); idx /= k; }
        let r = catch_unwind(AssertUnwindSafe(|| {
            let mut tree: IntervalTree<i64, usize> = IntervalTree::new();
            let mut ab: ArrayBackedIntervalTree<i64, usize> = ArrayBackedIntervalTree::new();
            let mut model: Vec<((i64, i64), usize)> = vec![];
            for (id, &(a, b)) in seq.iter().enumerate() {
                tree.insert(a..b, id); ab.insert(a..b, id); model.push(((a, b), id));
                let js = serde_json::to_value(&tree).unwrap();
                let mut cnt = 0; let (h, _, _, _) = check_node(&js["root"], &mut cnt)?;
                if cnt != model.len() { return Err(format!("node count {}", cnt)); }
                let _ = h;
                if id + 1 == seq.len() || id == 2 {
                    ab.index();
                    for &(qa, qb) in &ivs {
                        let mut exp: Vec<_> = model.iter().filter(|((a, b), _)| *a < qb && qa < *b).map(|&((a, b), d)| (a, b, d)).collect(); exp.sort();
                        let mut got: Vec<_> = tree.find(qa..qb).map(|e| (e.interval().start, e.interval().end, *e.data())).collect(); got.sort();
                        if got != exp { return Err(format!("find {}..{} got {:?} exp {:?}", qa, qb, got, exp)); }
                        let mut got: Vec<(i64,i64,usize)> = vec![]; for mut e in tree.find_mut(qa..qb) { let (a, b) = (e.interval().start, e.interval().end); let d = e.data(); got.push((a, b, *d)); } got.sort();
                        if got != exp { return Err(format!("find_mut {}..{}", qa, qb)); }
                        let mut got: Vec<_> = ab.find(qa..qb).iter().map(|e| (e.interval().start, e.interval().end, *e.data())).collect(); got.sort();
                        if got != exp { return Err(format!("array find {}..{} got {:?} exp {:?}", qa, qb, got, exp)); }
                    }
                }
            }
            Ok(())
        }));
        match r { Err(_) => report("itree-panic", format!("{:?}", seq)), Ok(Err(e)) => report("itree", format!("{:?}: {}", seq, e)), _ => {} }
    });
    // ---- array backed: n up to 40, staircase with <=2 long intervals
    (0..=40usize).into_par_iter().for_each(|n| {
        for p1 in 0..n.max(1) { for p2 in p1..n.max(1) { for (l1, l2) in [(3i64, 0i64), (100, 0), (100, 7), (7, 100)] {
            let mut t: ArrayBackedIntervalTree<i64, usize> = ArrayBackedIntervalTree::new();
            let mut model = vec![];
            for i in 0..n { let a = 2 * i as i64; let mut b = a + 1; if i == p1 { b = a + 1 + l1; } if i == p2 && l2 > 0 { b = a + 1 + l2; } t.insert(a..b, i); model.push((a, b, i)); }
            let r = catch_unwind(AssertUnwindSafe(|| { t.index(); for q in 0..(2 * n as i64 + 4) { for w in [1i64, 2] {
                let mut exp: Vec<_> = model.iter().filter(|&&(a, b, _)| a < q + w && q < b).cloned().collect(); exp.sort();
                let mut got: Vec<_> = t.find(q..q+w).iter().map(|e| (e.interval().start, e.interval().end, *e.data())).collect(); got.sort();
                if got != exp { return Err(format!("q={}..{} got {:?} exp {:?}", q, q+w, got, exp)); } } } Ok(()) }));
            match r { Err(_) => report("abtree-panic", format!("n={} p1={} p2={}", n, p1, p2)), Ok(Err(e)) => report("abtree", format!("n={} p1={} p2={} l=({},{}): {}", n, p1, p2, l1, l2, e)), _ => {} }
        }}}
    });
    // unindexed query refused
    { let mut t: ArrayBackedIntervalTree<i64, usize> = ArrayBackedIntervalTree::new(); t.insert(0..1, 0); let r = catch_unwind(AssertUnwindSafe(|| t.find(0..1).len())); if r.is_ok() { report("abtree-unindexed-not-refused", String::new()); }
      t.index(); t.insert(5..6, 1); let r = catch_unwind(AssertUnwindSafe(|| t.find(0..1).len())); if r.is_ok() { report("abtree-unindexed-after-insert-not-refused", String::new()); } }
    // ---- indexed FASTA
    let widths = [1usize, 2, 3, 5];
    for &crlf in &[false, true] { for &w in &widths { for len1 in [1usize, 2, 5, 7] { for len2 in [1usize, 6] {
        let seq1: Vec<u8> = (0..len1).map(|i| b"ACGT"[i % 4]).collect();
        let seq2: Vec<u8> = (0..len2).map(|i| b"TTGCA"[i % 5]).collect();
        let nl: &[u8] = if crlf { b"\r\n" } else { b"\n" };
        let mut file = vec![]; let mut fai = String::new();
        for (name, sq) in [("s1", &seq1), ("s2", &seq2)] {
            file.extend_from_slice(b">"); file.extend_from_slice(name.as_bytes()); file.extend_from_slice(nl);
            let off = file.len();
            for ch in sq.chunks(w) { file.extend_from_slice(ch); file.extend_from_slice(nl); }
            fai.push_str(&format!("{}\t{}\t{}\t{}\t{}\n", name, sq.len(), off, w, w + nl.len()));
        }
        for chunk in [vec![1usize], vec![2], vec![3], vec![1, 3], vec![4096]] { for trunc in (0..=file.len()).rev() {
            let data = file[..trunc].to_vec();
            let full = trunc == file.len();
            if !full && chunk != vec![1usize] && chunk != vec![4096usize] { continue; }
            for (name, sq) in [("s1", &seq1), ("s2", &seq2)] { for start in 0..=sq.len() { for stop in start..=sq.len() { for mode in 0..2 {
                let r = catch_unwind(AssertUnwindSafe(|| {
                    let mut rd = fasta::IndexedReader::new(Frag { data: data.clone(), pos: 0, chunks: chunk.clone(), calls: 0 }, fai.as_bytes()).unwrap();
                    rd.fetch(name, start as u64, stop as u64).unwrap();
                    if mode == 0 { let mut out = vec![]; rd.read(&mut out).map(|_| out) } else { rd.read_iter().and_then(|it| it.collect::<io::Result<Vec<u8>>>()) }
                }));
                match r { Err(_) => report("ifasta-panic", format!("crlf={} w={} trunc={}/{} {} {}..{} mode={} chunk={:?}", crlf, w, trunc, file.len(), name, start, stop, mode, chunk)),
                    Ok(Ok(got)) => if got != sq[start..stop] { report(if full {"ifasta-wrong"} else {"ifasta-trunc-wrong"}, format!("crlf={} w={} trunc={}/{} {} {}..{} mode={} chunk={:?} got {:?} exp {:?}", crlf, w, trunc, file.len(), name, start, stop, mode, chunk, String::from_utf8_lossy(&got), String::from_utf8_lossy(&sq[start..stop]))); },
                    Ok(Err(_)) => if full { report("ifasta-err-on-full", format!("crlf={} w={} {} {}..{} mode={} chunk={:?}", crlf, w, name, start, stop, mode, chunk)); } }
            }}}}
        }}
    }}}}
    for (k, v) in viol.lock().unwrap().iter() { println!("{} count={} first={}", k, v.0, v.1); }
    println!("done");
}
