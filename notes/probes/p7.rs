use bio::pattern_matching::{shift_and::ShiftAnd, bndm::BNDM, bom::BOM, horspool::Horspool, kmp::KMP};
use bio::data_structures::bitenc::BitEnc;
use bio::data_structures::smallints::SmallInts;
use bio::data_structures::bit_tree::{MaxBitTree, SumBitTree};
use rayon::prelude::*;
use std::panic::{catch_unwind, AssertUnwindSafe};
use std::sync::Mutex;
use std::collections::BTreeMap;

fn strings(minlen: usize, maxlen: usize, alpha: &[u8]) -> Vec<Vec<u8>> {
    let mut out = vec![];
    let mut cur = vec![vec![]];
    if minlen == 0 { out.push(vec![]); }
    for l in 1..=maxlen {
        let mut nxt = vec![];
        for s in &cur { for &c in alpha { let mut t: Vec<u8> = s.clone(); t.push(c); nxt.push(t); } }
        if l >= minlen { out.extend(nxt.iter().cloned()); }
        cur = nxt;
    }
    out
}
fn naive(p: &[u8], t: &[u8]) -> Vec<usize> { if p.len() > t.len() { return vec![]; } (0..=t.len()-p.len()).filter(|&i| &t[i..i+p.len()] == p).collect() }

fn main() {
    std::panic::set_hook(Box::new(|_| {}));
    let viol = Mutex::new(BTreeMap::<String, (usize, String)>::new());
    let report = |k: &str, d: String| { let mut v = viol.lock().unwrap(); let e = v.entry(k.to_string()).or_insert((0, d)); e.0 += 1; };
    // C08 exhaustive small
    let pats = strings(1, 5, b"ab");
    let texts = strings(0, 10, b"ab");
    pats.par_iter().for_each(|p| {
        let sa = ShiftAnd::new(p); let bn = BNDM::new(p); let bo = BOM::new(p); let ho = Horspool::new(p); let km = KMP::new(p);
        for t in &texts {
            let exp = naive(p, t);
            let chk = |name: &str, got: Result<Vec<usize>, ()>| match got { Err(_) => report(&format!("{}-panic", name), format!("p={:?} t={:?}", String::from_utf8_lossy(p), String::from_utf8_lossy(t))), Ok(g) => if g != exp { report(name, format!("p={:?} t={:?} got {:?} exp {:?}", String::from_utf8_lossy(p), String::from_utf8_lossy(t), g, exp)) } };
            chk("shiftand", catch_unwind(AssertUnwindSafe(|| sa.find_all(t).collect())).map_err(|_| ()));
            chk("bndm", catch_unwind(AssertUnwindSafe(|| bn.find_all(t).collect())).map_err(|_| ()));
            chk("bom", catch_unwind(AssertUnwindSafe(|| bo.find_all(t).collect())).map_err(|_| ()));
            chk("horspool", catch_unwind(AssertUnwindSafe(|| ho.find_all(t).collect())).map_err(|_| ()));
            chk("kmp", catch_unwind(AssertUnwindSafe(|| km.find_all(t).collect())).map_err(|_| ()));
        }
    });
    // boundary lengths: periodic patterns
    let units = strings(1, 3, b"ab");
    let lens = [31usize, 32, 33, 63, 64];
    let mut cases = vec![];
    for u in &units { for &l in &lens { for tail in 0..3 {
        let mut p: Vec<u8> = u.iter().cycle().take(l).cloned().collect();
        if tail == 1 { let n = p.len(); p[n-1] = if p[n-1]==b'a' {b'b'} else {b'a'}; }
        if tail == 2 { p[0] = if p[0]==b'a' {b'b'} else {b'a'}; }
        cases.push(p);
    }}}
    cases.par_iter().for_each(|p| {
        // texts: p's period extended, with p embedded at offsets, single mutations
        let l = p.len();
        let mut ts: Vec<Vec<u8>> = vec![];
        for pre in 0..3 { for post in 0..3 { for extra in [0usize, 1, l/2, l] {
            let mut t = vec![b'b'; pre]; t.extend_from_slice(p); t.extend(p.iter().take(extra)); t.extend(vec![b'a'; post]); ts.push(t);
        }}}
        for pos in [0, 1, l/2, l-1] { let mut t = p.clone(); t.extend_from_slice(p); t[pos] ^= 3; ts.push(t); }
        ts.push(p[..l-1].to_vec());
        for t in &ts {
            let exp = naive(p, t);
            let chk = |name: &str, got: Result<Vec<usize>, ()>| match got { Err(_) => report(&format!("{}-long-panic", name), format!("plen={} p={:?}", p.len(), String::from_utf8_lossy(&p[..8]))), Ok(g) => if g != exp { report(&format!("{}-long", name), format!("plen={} got {:?} exp {:?}", p.len(), g, exp)) } };
            chk("shiftand", catch_unwind(AssertUnwindSafe(|| ShiftAnd::new(p).find_all(t).collect())).map_err(|_| ()));
            chk("bndm", catch_unwind(AssertUnwindSafe(|| BNDM::new(p).find_all(t).collect())).map_err(|_| ()));
            chk("bom", catch_unwind(AssertUnwindSafe(|| BOM::new(p).find_all(t).collect())).map_err(|_| ()));
            chk("horspool", catch_unwind(AssertUnwindSafe(|| Horspool::new(p).find_all(t).collect())).map_err(|_| ()));
            chk("kmp", catch_unwind(AssertUnwindSafe(|| KMP::new(p).find_all(t).collect())).map_err(|_| ()));
        }
    });
    // C18 BitEnc: op sequences depth d over alphabet
    #[derive(Clone, Copy, Debug)] enum Op { Push(u8), PushN(usize, u8), Set(usize, u8), Clear }
    for width in 1..=8usize {
        let maxv = ((1u16 << width) - 1) as u8;
        let vals = [1u8.min(maxv), maxv];
        let mut alphabet: Vec<Op> = vec![];
        for &v in &vals { alphabet.push(Op::Push(v)); for n in [1usize, 3, 4, 9, 10, 11, 33] { alphabet.push(Op::PushN(n, v)); } for i in [0usize, 5, 9, 10, 11] { alphabet.push(Op::Set(i, v)); } }
        alphabet.push(Op::Clear);
        let depth = 3;
        let total = alphabet.len().pow(depth as u32);
        (0..total).into_par_iter().for_each(|mut idx| {
            let mut seq = vec![]; for _ in 0..depth { seq.push(alphabet[idx % alphabet.len()]); idx /= alphabet.len(); }
            let r = catch_unwind(AssertUnwindSafe(|| {
                let mut b = BitEnc::new(width); let mut m: Vec<u8> = vec![];
                let mask = maxv;
                for op in &seq {
                    match *op { Op::Push(v) => { b.push(v); m.push(v & mask); } Op::PushN(n, v) => { b.push_values(n, v); m.extend(std::iter::repeat(v & mask).take(n)); }
                        Op::Set(i, v) => { if i < m.len() { b.set(i, v); m[i] = v & mask; } } Op::Clear => { b.clear(); m.clear(); } }
                    if b.nr_symbols() != m.len() { return Err(format!("len {} vs {}", b.nr_symbols(), m.len())); }
                    let got: Vec<u8> = b.iter().collect(); if got != m { return Err(format!("contents {:?} vs {:?}", got, m)); }
                    if b.get(m.len()).is_some() { return Err("oob get".into()); }
                    let per = 32 / width; let expb = (m.len() + per - 1) / per; if b.nr_blocks() != expb { return Err(format!("blocks {} vs {}", b.nr_blocks(), expb)); }
                }
                Ok(())
            }));
            match r { Err(_) => report(&format!("bitenc-w{}-panic", width), format!("{:?}", seq)), Ok(Err(e)) => report(&format!("bitenc-w{}", width), format!("{:?}: {}", seq, e)), _ => {} }
        });
    }
    // SmallInts<i8,isize> and <u8,usize>
    let valsi: [isize; 8] = [0, 1, -1, 126, 127, 128, -128, -129];
    let n = valsi.len();
    (0..n*n*n*n).into_par_iter().for_each(|mut idx| {
        let mut seq = vec![]; for _ in 0..4 { seq.push(valsi[idx % n]); idx /= n; }
        let r = catch_unwind(AssertUnwindSafe(|| {
            let mut s: SmallInts<i8, isize> = SmallInts::new(); let mut m = vec![];
            s.push(seq[0]); m.push(seq[0]); s.push(seq[1]); m.push(seq[1]);
            s.set(0, seq[2]); m[0] = seq[2]; s.set(1, seq[3]); m[1] = seq[3]; s.set(0, seq[1]); m[0] = seq[1];
            if s.decompress() != m || s.len() != 2 || s.get(0) != Some(m[0]) || s.get(2).is_some() || s.iter().collect::<Vec<_>>() != m { return Err(format!("{:?} vs {:?}", s.decompress(), m)); }
            Ok(())
        }));
        match r { Err(_) => report("smallints-panic", format!("{:?}", seq)), Ok(Err(e)) => report("smallints", format!("{:?}: {}", seq, e)), _ => {} }
    });
    // Fenwick
    for len in 1..=9usize { let ups: Vec<(usize, u32)> = (0..len).flat_map(|i| [1u32, 3].into_iter().map(move |v| (i, v))).collect();
        let k = ups.len();
        (0..k*k*k).into_par_iter().for_each(|mut idx| {
            let mut seq = vec![]; for _ in 0..3 { seq.push(ups[idx % k]); idx /= k; }
            let mut mx: MaxBitTree<u32> = MaxBitTree::new(len); let mut sm: SumBitTree<u32> = SumBitTree::new(len);
            let mut arr_max = vec![0u32; len]; let mut arr_sum = vec![0u32; len];
            for &(i, v) in &seq { mx.set(i, v); sm.set(i, v); arr_max[i] = arr_max[i].max(v); arr_sum[i] += v;
                for q in 0..len { if mx.get(q) != *arr_max[..=q].iter().max().unwrap() { report("fenwick-max", format!("{:?}", seq)); } if sm.get(q) != arr_sum[..=q].iter().sum::<u32>() { report("fenwick-sum", format!("{:?}", seq)); } } }
        });
    }
    for (k, v) in viol.lock().unwrap().iter() { println!("{} count={} first={}", k, v.0, v.1); }
    println!("done");
}
