use bio::stats::{LogProb, Prob, PHREDProb};
use bio::stats::hmm::{viterbi, forward, backward, Model, State};
use bio::stats::hmm::discrete_emission::Model as DModel;
use bio::stats::hmm::discrete_emission_opt_end::Model as EModel;
use bio::utils::FastExp;
use ndarray::{Array1, Array2};
use rayon::prelude::*;
use std::panic::{catch_unwind, AssertUnwindSafe};
use std::sync::Mutex;
use std::collections::BTreeMap;

fn main() {
    std::panic::set_hook(Box::new(|_| {}));
    let viol = Mutex::new(BTreeMap::<String, (usize, String)>::new());
    let report = |k: &str, d: String| { let mut v = viol.lock().unwrap(); let e = v.entry(k.to_string()).or_insert((0, d)); e.0 += 1; };
    // fastexp accuracy on a dense grid
    let mut maxrel: f64 = 0.0; let mut arg = 0.0;
    let n = 4_000_000; for i in 0..=n { let x = -700.0 * (i as f64) / (n as f64); let a = x.fastexp(); let b = x.exp(); if b > 0.0 { let rel = ((a - b) / b).abs(); if x > -500.0 && rel > maxrel { maxrel = rel; arg = x; } } }
    println!("fastexp max rel err on (-500,0] grid: {:e} at {}", maxrel, arg);
    // ln_add_exp over pairs: error relative to larger operand
    let grid: Vec<f64> = { let mut g = vec![f64::NEG_INFINITY, 0.0]; for i in 1..400 { g.push(-(i as f64) * 0.05); } for e in [-25.0, -50.0, -100.0, -300.0, -499.9, -500.0, -500.1, -700.0, -745.0, -1000.0] { g.push(e); } g };
    let mut worst: f64 = 0.0;
    for &p in &grid { for &q in &grid {
        let r = LogProb(p).ln_add_exp(LogProb(q));
        if r.is_nan() { report("add-nan", format!("{} {}", p, q)); continue; }
        let mx = p.max(q);
        if mx == f64::NEG_INFINITY { if *r != f64::NEG_INFINITY { report("add-zero", format!("{} {}", p, q)); } continue; }
        let got = (*r - mx).exp(); let exp = (p - mx).exp() + (q - mx).exp();
        let err = (got - exp).abs(); if err > worst { worst = err; }
        if err > 0.005 { report("add-err", format!("{} {} got {} exp {}", p, q, got, exp)); }
        // sub: (p+q) - q ~ p
        let big = if p >= q { p } else { q }; let small = if p >= q { q } else { p };
        let rr = catch_unwind(AssertUnwindSafe(|| LogProb(big).ln_sub_exp(LogProb(small))));
        match rr { Err(_) => report("sub-panic", format!("{} {}", big, small)), Ok(d) => { if d.is_nan() { report("sub-nan", format!("{} {}", big, small)); } else if big > f64::NEG_INFINITY { let got = (*d - big).exp(); let exp = 1.0 - (small - big).exp(); if (got - exp).abs() > 0.005 { report("sub-err", format!("{} {} got {} exp {}", big, small, got, exp)); } } } }
    }
        let c = LogProb(p).ln_one_minus_exp(); let e = 1.0 - p.exp(); if c.is_nan() || ((*c).exp() - e).abs() > 0.005 { report("one-minus", format!("{} got {} exp {}", p, (*c).exp(), e)); }
    }
    println!("ln_add_exp worst abs err relative to larger operand: {:e}", worst);
    // conversions
    for i in 0..=1000 { let p = i as f64 / 1000.0; let lp = LogProb::from(Prob(p)); let back = Prob::from(lp); if (*back - p).abs() > 0.005 * p.max(1e-300) && p > 0.0 { report("conv-prob-log", format!("{} -> {}", p, *back)); }
        let ph = PHREDProb::from(Prob(p)); let b2 = Prob::from(ph); if p > 0.0 && ((*b2 - p) / p).abs() > 1e-9 { report("conv-phred", format!("{} -> {}", p, *b2)); }
        let l2 = LogProb::from(ph); if p > 0.0 && (*l2 - *lp).abs() > 1e-9 * (1.0 + lp.abs()) { report("conv-phred-log", format!("{} {} {}", p, *l2, *lp)); }
        let ph2 = PHREDProb::from(lp); if p > 0.0 && (*ph2 - *ph).abs() > 1e-9 * (1.0 + ph.abs()) { report("conv-log-phred", format!("{}", p)); } }
    for bad in [-0.1, 1.0000001, f64::NAN, f64::INFINITY] { if Prob::checked(bad).is_ok() { report("checked", format!("{}", bad)); } }
    // ---- HMM: S=2, M=2, halves lattice
    let rows2: Vec<[f64; 2]> = vec![[0.0, 0.0], [0.0, 0.5], [0.5, 0.0], [0.5, 0.5], [0.0, 1.0], [1.0, 0.0]];
    let ends: Vec<Option<[f64; 2]>> = vec![None, Some([1.0, 1.0]), Some([0.5, 0.0]), Some([0.0, 0.5]), Some([0.5, 0.5]), Some([0.0, 0.0]), Some([1.0, 0.5])];
    let mut models = vec![];
    for t0 in &rows2 { for t1 in &rows2 { for e0 in &rows2 { for e1 in &rows2 { for pi in &rows2 { for en in &ends { models.push((*t0, *t1, *e0, *e1, *pi, *en)); } } } } } }
    println!("models={}", models.len());
    let mut obs_seqs: Vec<Vec<usize>> = vec![]; for l in 1..=4usize { for mut idx in 0..(1usize << l) { let mut o = vec![]; for _ in 0..l { o.push(idx & 1); idx >>= 1; } obs_seqs.push(o); } }
    models.par_iter().for_each(|(t0, t1, e0, e1, pi, en)| {
        let tr = Array2::from_shape_vec((2, 2), vec![t0[0], t0[1], t1[0], t1[1]]).unwrap();
        let em = Array2::from_shape_vec((2, 2), vec![e0[0], e0[1], e1[0], e1[1]]).unwrap();
        let ini = Array1::from_vec(vec![pi[0], pi[1]]);
        let endv = en.map(|e| Array1::from_vec(vec![e[0], e[1]]));
        let emodel = EModel::with_float(&tr, &em, &ini, endv.as_ref()).unwrap();
        let dmodel = if en.is_none() { Some(DModel::with_float(&tr, &em, &ini).unwrap()) } else { None };
        for obs in &obs_seqs {
            let t = obs.len();
            // brute force
            let mut sum_with_end = 0.0; let mut max_with_end: f64 = 0.0; let mut max_no_end: f64 = 0.0;
            for mut idx in 0..(1usize << t) { let mut path = vec![]; for _ in 0..t { path.push(idx & 1); idx >>= 1; }
                let mut p = ini[path[0]] * em[[path[0], obs[0]]]; for i in 1..t { p *= tr[[path[i-1], path[i]]] * em[[path[i], obs[i]]]; }
                let pe = p * en.map(|e| e[path[t-1]]).unwrap_or(1.0);
                sum_with_end += pe; max_with_end = max_with_end.max(pe); max_no_end = max_no_end.max(p); }
            let run = |name: &str, vit: (Vec<State>, LogProb), fw: LogProb, bw: LogProb| {
                let tol = |a: f64, b: f64, rel: f64| (a - b).abs() <= rel * a.abs().max(b.abs()) + 1e-300;
                if fw.is_nan() || bw.is_nan() || vit.1.is_nan() || *fw == f64::INFINITY { report(&format!("{}-nan", name), format!("{:?} {:?}", (t0,t1,e0,e1,pi,en), obs)); return; }
                let f = fw.exp(); let b = bw.exp(); let v = vit.1.exp();
                let rel = 1.005f64.powi(t as i32 + 1) - 1.0;
                if !tol(f, sum_with_end, rel) { report(&format!("{}-forward", name), format!("{:?} {:?} got {} exp {}", (t0,t1,e0,e1,pi,en), obs, f, sum_with_end)); }
                if !tol(b, sum_with_end, rel) { report(&format!("{}-backward", name), format!("{:?} {:?} got {} exp {}", (t0,t1,e0,e1,pi,en), obs, b, sum_with_end)); }
                // viterbi path prob
                let path: Vec<usize> = vit.0.iter().map(|s| **s).collect();
                let mut p = ini[path[0]] * em[[path[0], obs[0]]]; for i in 1..t { p *= tr[[path[i-1], path[i]]] * em[[path[i], obs[i]]]; }
                let pe = p * en.map(|e| e[path[t-1]]).unwrap_or(1.0);
                if !tol(v, max_with_end, 1e-9) { report(&format!("{}-viterbi-not-max-with-end", name), format!("{:?} {:?} got {} exp {} (noend {})", (t0,t1,e0,e1,pi,en), obs, v, max_with_end, max_no_end)); }
                if !tol(v, pe, 1e-9) { report(&format!("{}-viterbi-path-prob-with-end", name), format!("{:?} {:?} reported {} path {:?} has {}", (t0,t1,e0,e1,pi,en), obs, v, path, pe)); }
                if !tol(v, max_no_end, 1e-9) { report(&format!("{}-viterbi-not-max-no-end", name), String::new()); }
                if f * (1.0 + rel) + 1e-300 < v { report(&format!("{}-likelihood-below-viterbi", name), format!("{:?} {:?} f {} v {}", (t0,t1,e0,e1,pi,en), obs, f, v)); }
            };
            let r = catch_unwind(AssertUnwindSafe(|| (viterbi(&emodel, obs), forward(&emodel, obs).1, backward(&emodel, obs).1)));
            match r { Err(_) => report("emodel-panic", format!("{:?} {:?}", (t0,t1,e0,e1,pi,en), obs)), Ok((v, f, b)) => run(if en.is_some() { "end" } else { "noend" }, v, f, b) }
            if let Some(dm) = &dmodel { let r = catch_unwind(AssertUnwindSafe(|| (viterbi(dm, obs), forward(dm, obs).1, backward(dm, obs).1))); match r { Err(_) => report("dmodel-panic", format!("{:?}", obs)), Ok((v, f, b)) => run("dmodel", v, f, b) } }
        }
    });
    for (k, v) in viol.lock().unwrap().iter() { println!("{} count={} first={}", k, v.0, &v.1[..v.1.len().min(500)]); }
    println!("done");
}
