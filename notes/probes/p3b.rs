use bio::alignment::pairwise::{banded, Scoring, MIN_SCORE};
use std::io::Write;
fn main() {
    let strs: Vec<&[u8]> = vec![b"", b"a", b"b", b"aa", b"ab", b"ba", b"bb"];
    let clips = [MIN_SCORE, 0, -1, -4];
    let out = std::io::stdout();
    for &go in &[0, -1] { for &ge in &[0, -1] {
    for &xp in &clips { for &xs in &clips { for &yp in &clips { for &ys in &clips {
    for k in 1..=3usize { for w in 0..=2usize {
        let f = |a: u8, b: u8| if a == b { 1 } else { -1 };
        let scoring = Scoring { gap_open: go, gap_extend: ge, match_fn: f, match_scores: Some((1, -1)), xclip_prefix: xp, xclip_suffix: xs, yclip_prefix: yp, yclip_suffix: ys };
        let mut aligner = banded::Aligner::with_scoring(scoring, k, w);
        for x in &strs { for y in &strs {
            { let mut o = out.lock(); writeln!(o, "go={} ge={} clips=({},{},{},{}) k={} w={} x={:?} y={:?}", go, ge, xp, xs, yp, ys, k, w, String::from_utf8_lossy(x), String::from_utf8_lossy(y)).unwrap(); o.flush().unwrap(); }
            if x.is_empty() && y.is_empty() { continue; } let _ = aligner.custom(x, y);
        }}
    }}
    }}}}
    }}
    println!("done");
}
