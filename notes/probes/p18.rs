use bio::alignment::pairwise::{banded, Aligner, Scoring, MIN_SCORE};
use bio::io::fasta;
use std::io::{self, Read, Seek, SeekFrom};
use std::time::Instant;
struct Frag { data: Vec<u8>, pos: u64, chunks: Vec<usize>, calls: usize }
impl Read for Frag { fn read(&mut self, buf: &mut [u8]) -> io::Result<usize> { let c = self.chunks[self.calls % self.chunks.len()]; self.calls += 1; let p = self.pos as usize; if p >= self.data.len() { return Ok(0); } let n = c.min(buf.len()).min(self.data.len() - p); buf[..n].copy_from_slice(&self.data[p..p+n]); self.pos += n as u64; Ok(n) } }
impl Seek for Frag { fn seek(&mut self, s: SeekFrom) -> io::Result<u64> { match s { SeekFrom::Start(o) => self.pos = o, SeekFrom::Current(d) => self.pos = (self.pos as i64 + d) as u64, SeekFrom::End(d) => self.pos = (self.data.len() as i64 + d) as u64 }; Ok(self.pos) } }
fn main() {
    // MAX_CELLS
    for n in [2235usize, 2236] {
        let x = vec![b'a'; n]; let y = vec![b'b'; n];
        let f = |a: u8, b: u8| if a == b { 1 } else { -1 };
        let t = Instant::now();
        let mut al = banded::Aligner::with_scoring(Scoring::new(-2, -1, f).xclip(0).yclip(0), 3, 2);
        let r = al.custom(&x, &y);
        let mut full = Aligner::with_scoring(Scoring::new(-2, -1, f).xclip(0).yclip(0));
        let fr = full.custom(&x, &y);
        println!("n={} cells={} banded score={} ops={} xlen={} mode={:?} full score={} ({:?})", n, (n+1)*(n+1), r.score, r.operations.len(), r.xlen, r.mode, fr.score, t.elapsed());
        let _ = MIN_SCORE;
    }
    // wide-line indexed fasta
    let mut bad = 0; let mut total = 0;
    for &w in &[60usize, 511, 512, 513, 600] { for crlf in [false, true] {
        let len = 1300; let seq: Vec<u8> = (0..len).map(|i| b"ACGTN"[(i * 3 + i / 7) % 5]).collect();
        let nl: &[u8] = if crlf { b"\r\n" } else { b"\n" };
        let mut file = b">s1".to_vec(); file.extend_from_slice(nl); let off = file.len(); for ch in seq.chunks(w) { file.extend_from_slice(ch); file.extend_from_slice(nl); }
        let fai = format!("s1\t{}\t{}\t{}\t{}\n", len, off, w, w + nl.len());
        let mut marks = vec![0usize, 1, len - 1, len]; for m in [w, 2 * w, 512, 1024] { for d in 0..=2 { if m + d <= len { marks.push(m + d); } if m >= d { marks.push(m - d); } } } marks.sort(); marks.dedup();
        for chunk in [vec![1usize], vec![7], vec![100, 3], vec![1 << 20]] { for &s in &marks { for &e in &marks { if s > e { continue; } for mode in 0..2 {
            total += 1;
            let mut rd = fasta::IndexedReader::new(Frag { data: file.clone(), pos: 0, chunks: chunk.clone(), calls: 0 }, fai.as_bytes()).unwrap();
            rd.fetch("s1", s as u64, e as u64).unwrap();
            let got = if mode == 0 { let mut o = vec![]; rd.read(&mut o).map(|_| o) } else { rd.read_iter().and_then(|it| it.collect::<io::Result<Vec<u8>>>()) };
            match got { Ok(g) if g == seq[s..e] => {}, other => { bad += 1; if bad < 5 { println!("BAD w={} crlf={} chunk={:?} {}..{} mode={} -> {:?}", w, crlf, chunk, s, e, mode, other.map(|v| v.len())); } } }
        }}}}
    }}
    println!("wide fasta total={} bad={}", total, bad);
}
