use bio::alignment::poa::Aligner;
use bio::alignment::pairwise::Scoring;
fn main() {
    let f = |a: u8, b: u8| if a == b { 1 } else { -1 };
    let mut al = Aligner::new(Scoring::new(-1, 0, f), b"a");
    println!("consensus before: {:?}", al.consensus());
    al.global(b"a");
    println!("aln {:?}", al.alignment());
    al.add_to_graph();
    println!("graph {:?}", al.graph());
    println!("consensus: {:?}", al.consensus());
    let mut al = Aligner::new(Scoring::new(-1, 0, f), b"ab");
    al.global(b"b").add_to_graph();
    println!("graph {:?}", al.graph());
    println!("consensus: {:?}", al.consensus());
}
