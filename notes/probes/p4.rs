use bio::data_structures::suffix_array::{suffix_array, suffix_array_int, lcp, shortest_unique_substrings, SuffixArray};
use bio::data_structures::bwt::{bwt, less, Occ, invert_bwt};
use bio::data_structures::fmindex::{FMIndex, FMIndexable, BackwardSearchResult, FMDIndex};
use bio::alphabets::{Alphabet, dna};
use rayon::prelude::*;
use std::panic::{catch_unwind, AssertUnwindSafe};
use std::sync::Mutex;
use std::collections::BTreeMap;

fn strings(maxlen: usize, alpha: &[u8]) -> Vec<Vec<u8>> {
    let mut out = vec![vec![]];
    let mut cur = vec![vec![]];
    for _ in 0..maxlen {
        let mut nxt = vec![];
        for s in &cur { for &c in alpha { let mut t: Vec<u8> = s.clone(); t.push(c); nxt.push(t); } }
        out.extend(nxt.iter().cloned());
        cur = nxt;
    }
    out
}

// check SA is sorted under a single consistent comparison where sentinel occurrences ordered by pi
fn check_sa(text: &[u8], sa: &[usize]) -> Result<(), String> {
    let n = text.len();
    let sent = text[n-1];
    let mut seen = vec![false; n];
    if sa.len() != n { return Err("len".into()); }
    for &p in sa { if p >= n || seen[p] { return Err("not a permutation".into()); } seen[p] = true; }
    if sa[0] != n-1 { return Err("final sentinel not smallest".into()); }
    // order of sentinel occurrences as they appear in SA
    let mut rank_of_sentinel = vec![usize::MAX; n];
    let mut r = 0;
    for &p in sa { if text[p] == sent { rank_of_sentinel[p] = r; r += 1; } }
    let cmp = |a: usize, b: usize| -> std::cmp::Ordering {
        let (mut i, mut j) = (a, b);
        loop {
            if i >= n && j >= n { return std::cmp::Ordering::Equal; }
            if i >= n { return std::cmp::Ordering::Less; }
            if j >= n { return std::cmp::Ordering::Greater; }
            let (ci, cj) = (text[i], text[j]);
            let ki = if ci == sent { (0usize, rank_of_sentinel[i]) } else { (1 + ci as usize, 0) };
            let kj = if cj == sent { (0usize, rank_of_sentinel[j]) } else { (1 + cj as usize, 0) };
            if ki != kj { return ki.cmp(&kj); }
            if ci == sent { return std::cmp::Ordering::Equal; } // same sentinel occurrence => same position
            i += 1; j += 1;
        }
    };
    for w in sa.windows(2) { if cmp(w[0], w[1]) != std::cmp::Ordering::Less { return Err(format!("not sorted at {:?}", w)); } }
    Ok(())
}

fn main() {
    std::panic::set_hook(Box::new(|_| {}));
    let maxlen: usize = std::env::args().nth(1).map(|s| s.parse().unwrap()).unwrap_or(6);
    // texts over {$, a, b} ending with $
    let bodies = strings(maxlen, b"$ab");
    let viol = Mutex::new(BTreeMap::<String, (usize, String)>::new());
    let report = |k: &str, d: String| { let mut v = viol.lock().unwrap(); let e = v.entry(k.to_string()).or_insert((0, d)); e.0 += 1; };
    bodies.par_iter().for_each(|b| {
        let mut text = b.clone(); text.push(b'$');
        let n = text.len();
        let r = catch_unwind(AssertUnwindSafe(|| suffix_array(&text)));
        let sa = match r { Ok(sa) => sa, Err(_) => { report("sa-panic", format!("{:?}", String::from_utf8_lossy(&text))); return; } };
        if let Err(e) = check_sa(&text, &sa) { report("sa-wrong", format!("{:?} {:?} {}", String::from_utf8_lossy(&text), sa, e)); return; }
        let nsent = text.iter().filter(|&&c| c == b'$').count();
        // bwt
        let bw = bwt(&text, &sa);
        for r in 0..n { let exp = if sa[r] > 0 { text[sa[r]-1] } else { text[n-1] }; if bw[r] != exp { report("bwt", format!("{:?}", text)); } }
        let alphabet = Alphabet::new(b"$abc");
        let ls = less(&bw, &alphabet);
        for &c in b"$abc" { let exp = text.iter().filter(|&&d| d < c).count(); if ls[c as usize] != exp { report("less", format!("{:?} c={}", text, c)); } }
        for k in (1..=(2*n as u32)).chain([65u32, 66, 100, 128, 129]) {
            let r = catch_unwind(AssertUnwindSafe(|| {
                let occ = Occ::new(&bw, k, &alphabet);
                for r in 0..n { for &c in b"$abc" {
                    let exp = bw[..=r].iter().filter(|&&d| d == c).count();
                    let got = occ.get(&bw, r, c);
                    if got != exp { report("occ", format!("{:?} k={} r={} c={} got {} exp {}", String::from_utf8_lossy(&text), k, r, c as char, got, exp)); }
                }}
            }));
            if r.is_err() { report("occ-panic", format!("{:?} k={}", String::from_utf8_lossy(&text), k)); }
        }
        if nsent == 1 {
            let inv = invert_bwt(&bw);
            if inv != text { report("invert", format!("{:?} -> {:?}", String::from_utf8_lossy(&text), String::from_utf8_lossy(&inv))); }
            if n >= 2 {
                let l = lcp(&text, &sa).decompress();
                let mut exp = vec![-1isize; n+1];
                for r in 1..n { let (a, b) = (sa[r-1], sa[r]); let mut c = 0; while a+c < n && b+c < n && text[a+c]==text[b+c] { c+=1; } exp[r] = c as isize; }
                if l != exp { report("lcp", format!("{:?} got {:?} exp {:?}", String::from_utf8_lossy(&text), l, exp)); }
                let lc = lcp(&text, &sa);
                let sus = shortest_unique_substrings(&sa, &lc);
                for p in 0..n {
                    // brute force: shortest l such that text[p..p+l] occurs exactly once, l <= n-p
                    let mut e = None;
                    for l in 1..=(n-p) { let sub = &text[p..p+l]; let cnt = (0..=n-l).filter(|&q| &text[q..q+l]==sub).count(); if cnt == 1 { e = Some(l); break; } }
                    if sus[p] != e { report("sus", format!("{:?} p={} got {:?} exp {:?}", String::from_utf8_lossy(&text), p, sus[p], e)); }
                }
            }
        }
        // sampled SA
        for s in 1..=(n+1) { for k in [1u32, 2, 3, 7] {
            let r = catch_unwind(AssertUnwindSafe(|| {
                let occ = Occ::new(&bw, k, &alphabet);
                let sampled = sa.sample(&text, &bw, &ls, &occ, s);
                for i in 0..n { if sampled.get(i) != Some(sa[i]) { report("sampled", format!("{:?} s={} k={} i={} got {:?} exp {}", String::from_utf8_lossy(&text), s, k, i, sampled.get(i), sa[i])); } }
                if sampled.get(n).is_some() { report("sampled-oob", String::new()); }
            }));
            if r.is_err() { report("sampled-panic", format!("{:?} s={} k={}", String::from_utf8_lossy(&text), s, k)); }
        }}
        // FM index backward search
        let pats = strings(4, b"abc");
        for k in [1u32, 2, 5] {
            let occ = Occ::new(&bw, k, &alphabet);
            let fm = FMIndex::new(&bw, &ls, &occ);
            for p in &pats { if p.is_empty() { continue; }
                let r = catch_unwind(AssertUnwindSafe(|| fm.backward_search(p.iter())));
                let res = match r { Ok(x) => x, Err(_) => { report("fm-panic", format!("{:?} p={:?}", String::from_utf8_lossy(&text), String::from_utf8_lossy(p))); continue; } };
                let occs = |q: &[u8]| -> Vec<usize> { (0..n).filter(|&i| i + q.len() <= n && &text[i..i+q.len()] == q).collect() };
                // longest suffix that occurs
                let mut l = 0; for s in 1..=p.len() { if !occs(&p[p.len()-s..]).is_empty() { l = s; } else { break; } }
                let expect = if l == p.len() { "complete" } else if l == 0 { "absent" } else { "partial" };
                let (kind, iv, ll) = match res { BackwardSearchResult::Complete(iv) => ("complete", Some(iv), p.len()), BackwardSearchResult::Partial(iv, ll) => ("partial", Some(iv), ll), BackwardSearchResult::Absent => ("absent", None, 0) };
                if kind != expect || ll != l { report("fm-kind", format!("{:?} p={:?} got {} {} exp {} {}", String::from_utf8_lossy(&text), String::from_utf8_lossy(p), kind, ll, expect, l)); continue; }
                if let Some(iv) = iv { let mut got = iv.occ(&sa); got.sort(); let exp = occs(&p[p.len()-l..]); if got != exp { report("fm-occ", format!("{:?} p={:?} got {:?} exp {:?}", String::from_utf8_lossy(&text), String::from_utf8_lossy(p), got, exp)); } }
            }
        }
    });
    // integer SA
    let ints = strings(7, &[1u8, 2, 3]);
    for b in &ints {
        let mut t: Vec<usize> = b.iter().map(|&c| c as usize).collect(); t.push(0);
        let mx = *t.iter().max().unwrap();
        if !(0..=mx).all(|v| t.contains(&v)) { continue; }
        let r = catch_unwind(AssertUnwindSafe(|| suffix_array_int(&t)));
        match r { Err(_) => report("sa-int-panic", format!("{:?}", t)), Ok(sa) => { let mut exp: Vec<usize> = (0..t.len()).collect(); exp.sort_by(|&a, &b| t[a..].cmp(&t[b..])); if sa != exp { report("sa-int", format!("{:?}", t)); } } }
    }
    println!("texts={}", bodies.len());
    for (k, v) in viol.lock().unwrap().iter() { println!("{} count={} first={}", k, v.0, v.1); }
}
