use bio::pattern_matching::myers::long;
fn main() {
    let p = b"aaaaaaaaab"; let t = b"a";
    let mut my = long::Myers::<u8>::new(&p[..]);
    println!("find_all_end k=0: {:?}", my.find_all_end(&t[..], 0).collect::<Vec<_>>());
    println!("find_all k=0: {:?}", my.find_all(&t[..], 0).collect::<Vec<_>>());
    let mut lz = my.find_all_lazy(&t[..], 0);
    println!("lazy: {:?}", lz.by_ref().collect::<Vec<_>>());
    println!("distance...");
    println!("{:?}", my.distance(&t[..]));
}
