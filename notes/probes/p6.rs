use bio::pattern_matching::myers::{long, Myers, MyersBuilder, BitVec};
use bio::pattern_matching::ukkonen::{Ukkonen, unit_cost};
use bio::alignment::{Alignment, AlignmentOperation, AlignmentOperation::*};
use rayon::prelude::*;
use std::panic::{catch_unwind, AssertUnwindSafe};
use std::sync::Mutex;
use std::collections::BTreeMap;

fn strings(minlen: usize, maxlen: usize, alpha: &[u8]) -> Vec<Vec<u8>> {
    let mut out = vec![];
    let mut cur = vec![vec![]];
    if minlen == 0 { out.push(vec![]); }
    for l in 1..=maxlen {
        let mut nxt = vec![];
        for s in &cur { for &c in alpha { let mut t: Vec<u8> = s.clone(); t.push(c); nxt.push(t); } }
        if l >= minlen { out.extend(nxt.iter().cloned()); }
        cur = nxt;
    }
    out
}
// semiglobal DP: returns D[m][i] for each text end i
fn sg(p: &[u8], t: &[u8]) -> Vec<usize> {
    let m = p.len();
    let mut col: Vec<usize> = (0..=m).collect();
    let mut out = vec![];
    for &c in t {
        let mut prev_diag = col[0]; col[0] = 0;
        for j in 1..=m { let tmp = col[j]; col[j] = (prev_diag + (p[j-1] != c) as usize).min(col[j] + 1).min(col[j-1] + 1); prev_diag = tmp; }
        out.push(col[m]);
    }
    out
}
fn edit(a: &[u8], b: &[u8]) -> usize {
    let mut col: Vec<usize> = (0..=a.len()).collect();
    for &c in b { let mut pd = col[0]; col[0] += 1; for j in 1..=a.len() { let tmp = col[j]; col[j] = (pd + (a[j-1] != c) as usize).min(col[j]+1).min(col[j-1]+1); pd = tmp; } }
    col[a.len()]
}
fn check_path(p: &[u8], t: &[u8], start: usize, end_excl: usize, dist: usize, ops: &[AlignmentOperation]) -> Result<(), String> {
    if start > end_excl || end_excl > t.len() { return Err(format!("bad range {}..{}", start, end_excl)); }
    let (mut i, mut j) = (0usize, start); let mut d = 0;
    for op in ops { match op {
        Match => { if i>=p.len()||j>=end_excl||p[i]!=t[j] { return Err("Match on unequal/overrun".into()); } i+=1; j+=1; }
        Subst => { if i>=p.len()||j>=end_excl||p[i]==t[j] { return Err("Subst on equal/overrun".into()); } i+=1; j+=1; d+=1; }
        Ins => { if i>=p.len() { return Err("Ins overrun".into()); } i+=1; d+=1; }
        Del => { if j>=end_excl { return Err("Del overrun".into()); } j+=1; d+=1; }
        _ => return Err("clip op".into()) } }
    if i != p.len() || j != end_excl { return Err(format!("consumed {} of {} pattern, text to {} of {}", i, p.len(), j, end_excl)); }
    if d != dist { return Err(format!("path cost {} != dist {}", d, dist)); }
    if edit(p, &t[start..end_excl]) != dist { return Err(format!("edit distance of substring {} != {}", edit(p, &t[start..end_excl]), dist)); }
    Ok(())
}

macro_rules! check_myers { ($ctor:expr, $p:expr, $t:expr, $k:expr, $report:expr, $name:expr, $dt:ty) => {{
    let p: &[u8] = $p; let t: &[u8] = $t; let k: usize = $k;
    let exp_all = sg(p, t);
    let exp: Vec<(usize, usize)> = exp_all.iter().cloned().enumerate().filter(|&(_, d)| d <= k).collect();
    let r = catch_unwind(AssertUnwindSafe(|| {
        let mut my = $ctor;
        let got: Vec<(usize, usize)> = my.find_all_end(t, k as $dt).map(|(e, d)| (e, d as usize)).collect();
        if got != exp { $report(&format!("{}-find_all_end", $name), format!("p={:?} t={:?} k={} got {:?} exp {:?}", String::from_utf8_lossy(p), String::from_utf8_lossy(t), k, got, exp)); }
        // eager API
        let mut full = vec![];
        { let mut m = my.find_all(t, k as $dt); let mut ops = vec![]; while let Some((s, e, d)) = m.next_path(&mut ops) { full.push((s, e, d as usize, ops.clone())); } }
        if full.iter().map(|x| (x.1 - 1, x.2)).collect::<Vec<_>>() != exp { $report(&format!("{}-full-ends", $name), format!("p={:?} t={:?} k={}", String::from_utf8_lossy(p), String::from_utf8_lossy(t), k)); }
        for (s, e, d, ops) in &full { if let Err(err) = check_path(p, t, *s, *e, *d, ops) { $report(&format!("{}-full-path", $name), format!("p={:?} t={:?} k={} hit=({},{},{}) ops={:?}: {}", String::from_utf8_lossy(p), String::from_utf8_lossy(t), k, s, e, d, ops, err)); } }
        // iterator (start,end,dist)
        let it: Vec<(usize, usize, usize)> = my.find_all(t, k as $dt).map(|(s,e,d)| (s,e,d as usize)).collect();
        if it != full.iter().map(|x| (x.0, x.1, x.2)).collect::<Vec<_>>() { $report(&format!("{}-full-iter-vs-path", $name), format!("p={:?} t={:?} k={}", String::from_utf8_lossy(p), String::from_utf8_lossy(t), k)); }
        // lazy API: consume all, then query all ends in reverse
        { let mut lz = my.find_all_lazy(t, k as $dt);
          // before searching, hit_at(0) must be None
          if !t.is_empty() && lz.hit_at(0).is_some() { $report(&format!("{}-lazy-stale", $name), format!("p={:?} t={:?} k={}", String::from_utf8_lossy(p), String::from_utf8_lossy(t), k)); }
          let ends: Vec<(usize, usize)> = lz.by_ref().map(|(e,d)| (e, d as usize)).collect();
          if ends != exp { $report(&format!("{}-lazy-ends", $name), format!("p={:?} t={:?} k={}", String::from_utf8_lossy(p), String::from_utf8_lossy(t), k)); }
          for (s, e, d, ops) in full.iter().rev() {
              let mut o = vec![];
              let h = lz.path_at(*e - 1, &mut o).map(|(s, d)| (s, d as usize));
              if h != Some((*s, *d)) || &o != ops { $report(&format!("{}-lazy-vs-full", $name), format!("p={:?} t={:?} k={} end={} lazy={:?} {:?} full=({},{}) {:?}", String::from_utf8_lossy(p), String::from_utf8_lossy(t), k, e-1, h, o, s, d, ops)); }
              let mut aln = Alignment::default();
              if !lz.alignment_at(*e - 1, &mut aln) || aln.ystart != *s || aln.yend != *e || aln.score as usize != *d || &aln.operations != ops || aln.xlen != p.len() || aln.ylen != t.len() { $report(&format!("{}-lazy-aln", $name), format!("p={:?} t={:?}", String::from_utf8_lossy(p), String::from_utf8_lossy(t))); }
          }
        }
        if !t.is_empty() {
            let dmin = *exp_all.iter().min().unwrap();
            if my.distance(t) as usize != dmin { $report(&format!("{}-distance", $name), format!("p={:?} t={:?} got {} exp {}", String::from_utf8_lossy(p), String::from_utf8_lossy(t), my.distance(t), dmin)); }
            let be = my.find_best_end(t); let first = exp_all.iter().position(|&d| d == dmin).unwrap();
            if (be.0, be.1 as usize) != (first, dmin) { $report(&format!("{}-best_end", $name), format!("p={:?} t={:?} got {:?} exp {:?}", String::from_utf8_lossy(p), String::from_utf8_lossy(t), be, (first, dmin))); }
        }
    }));
    if r.is_err() { $report(&format!("{}-panic", $name), format!("p={:?} t={:?} k={}", String::from_utf8_lossy(p), String::from_utf8_lossy(t), k)); }
}}}

fn main() {
    std::panic::set_hook(Box::new(|_| {}));
    let pl: usize = std::env::args().nth(1).map(|s| s.parse().unwrap()).unwrap_or(4);
    let tl: usize = std::env::args().nth(2).map(|s| s.parse().unwrap()).unwrap_or(6);
    let pats = strings(1, pl, b"ab");
    let texts = strings(0, tl, b"ab");
    let viol = Mutex::new(BTreeMap::<String, (usize, String)>::new());
    let report = |k: &str, d: String| { let mut v = viol.lock().unwrap(); let e = v.entry(k.to_string()).or_insert((0, d)); e.0 += 1; };
    pats.par_iter().for_each(|p| {
        for t in &texts { for k in 0..=(p.len()+1) {
            if p.len() <= 8 { check_myers!(Myers::<u8>::new(p), p, t, k, report, "simple-u8", u8); }
            check_myers!(Myers::<u64>::new(p), p, t, k, report, "simple-u64", u8);
            check_myers!(long::Myers::<u8>::new(p), p, t, k, report, "long-u8", usize);
            // ukkonen
            let exp: Vec<(usize, usize)> = sg(p, t).into_iter().enumerate().filter(|&(_, d)| d <= k).collect();
            let r = catch_unwind(AssertUnwindSafe(|| { let mut u = Ukkonen::with_capacity(p.len(), unit_cost); u.find_all_end(p, t, k).collect::<Vec<_>>() }));
            match r { Err(_) => report("ukkonen-panic", format!("p={:?} t={:?} k={}", String::from_utf8_lossy(p), String::from_utf8_lossy(t), k)), Ok(got) => if got != exp { report("ukkonen", format!("p={:?} t={:?} k={} got {:?} exp {:?}", String::from_utf8_lossy(p), String::from_utf8_lossy(t), k, got, exp)); } }
        }}
    });
    println!("pats={} texts={}", pats.len(), texts.len());
    for (k, v) in viol.lock().unwrap().iter() { println!("{} count={} first={}", k, v.0, v.1); }
}
