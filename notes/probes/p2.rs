use bio::alignment::pairwise::{Aligner, Scoring, MIN_SCORE};
use bio::alignment::{Alignment, AlignmentOperation::*};
use rayon::prelude::*;
use std::panic::{catch_unwind, AssertUnwindSafe};
use std::sync::atomic::{AtomicUsize, Ordering};
use std::sync::Mutex;

#[derive(Clone, Copy, Debug)]
struct Sc { mat: i32, mis: i32, go: i32, ge: i32, xp: i32, xs: i32, yp: i32, ys: i32 }

const NEG: i64 = i64::MIN / 4;

// global affine alignment score of a vs b (Gotoh), empty vs empty = 0
fn gotoh(a: &[u8], b: &[u8], s: &Sc) -> i64 {
    let (m, n) = (a.len(), b.len());
    let (go, ge) = (s.go as i64, s.ge as i64);
    let mut mm = vec![vec![NEG; n + 1]; m + 1];
    let mut ii = vec![vec![NEG; n + 1]; m + 1]; // gap consuming a (Ins)
    let mut dd = vec![vec![NEG; n + 1]; m + 1]; // gap consuming b (Del)
    mm[0][0] = 0;
    for i in 0..=m { for j in 0..=n {
        if i > 0 {
            let best_prev = mm[i-1][j].max(dd[i-1][j]);
            ii[i][j] = (ii[i-1][j] + ge).max(best_prev + go + ge);
        }
        if j > 0 {
            let best_prev = mm[i][j-1].max(ii[i][j-1]);
            dd[i][j] = (dd[i][j-1] + ge).max(best_prev + go + ge);
        }
        if i > 0 && j > 0 {
            let sc = if a[i-1] == b[j-1] { s.mat } else { s.mis } as i64;
            mm[i][j] = mm[i-1][j-1].max(ii[i-1][j-1]).max(dd[i-1][j-1]) + sc;
        }
    }}
    mm[m][n].max(ii[m][n]).max(dd[m][n])
}

fn optimum(x: &[u8], y: &[u8], s: &Sc) -> i64 {
    let (m, n) = (x.len(), y.len());
    let mut best = NEG;
    for xs in 0..=m { for xe in xs..=m { for ys in 0..=n { for ye in ys..=n {
        let mut pen: i64 = 0;
        if xs > 0 { pen += s.xp as i64; }
        if xe < m { pen += s.xs as i64; }
        if ys > 0 { pen += s.yp as i64; }
        if ye < n { pen += s.ys as i64; }
        if pen < (MIN_SCORE as i64) / 2 { continue; }
        let g = gotoh(&x[xs..xe], &y[ys..ye], s);
        best = best.max(g + pen);
    }}}}
    best
}

// validate path; return recomputed score or error
fn validate(al: &Alignment, x: &[u8], y: &[u8], s: &Sc, custom: bool) -> Result<i64, String> {
    let (m, n) = (x.len(), y.len());
    if al.xlen != m || al.ylen != n { return Err("xlen/ylen".into()); }
    if !(al.xstart <= al.xend && al.xend <= m && al.ystart <= al.yend && al.yend <= n) { return Err(format!("coords")); }
    let ops = &al.operations;
    // cursors; in standard modes clips are implicit
    let (mut i, mut j) = if custom { (0, 0) } else { (al.xstart, al.ystart) };
    let (mut xdone, mut ydone) = (false, false); // suffix clip seen
    let (mut xpre, mut ypre) = (false, false);
    let mut score: i64 = 0;
    let mut last = None;
    for op in ops {
        match *op {
            Xclip(k) => {
                if !custom { return Err("clip op in standard mode".into()); }
                if k == 0 { return Err("zero-length clip".into()); }
                if i == 0 && !xpre && al.xstart > 0 && k == al.xstart { xpre = true; i = k; }
                else if i == al.xend && !xdone && k == m - al.xend { xdone = true; i = m; }
                else { return Err(format!("Xclip({}) at i={} inconsistent with xstart/xend", k, i)); }
            }
            Yclip(k) => {
                if !custom { return Err("clip op in standard mode".into()); }
                if k == 0 { return Err("zero-length clip".into()); }
                if j == 0 && !ypre && al.ystart > 0 && k == al.ystart { ypre = true; j = k; }
                else if j == al.yend && !ydone && k == n - al.yend { ydone = true; j = n; }
                else { return Err(format!("Yclip({}) at j={} inconsistent with ystart/yend", k, j)); }
            }
            Match | Subst => {
                if xdone || ydone || i >= al.xend || j >= al.yend || i < al.xstart || j < al.ystart { return Err(format!("M/S outside aligned range at {},{}", i, j)); }
                let eq = x[i] == y[j];
                if (*op == Match) != eq { return Err(format!("Match/Subst label wrong at {},{}", i, j)); }
                score += if eq { s.mat } else { s.mis } as i64;
                i += 1; j += 1;
            }
            Ins => { if xdone || i >= al.xend || i < al.xstart { return Err(format!("Ins outside aligned range at {}", i)); }
                score += if last == Some(Ins) { s.ge } else { s.go + s.ge } as i64; i += 1; }
            Del => { if ydone || j >= al.yend || j < al.ystart { return Err(format!("Del outside aligned range at {}", j)); }
                score += if last == Some(Del) { s.ge } else { s.go + s.ge } as i64; j += 1; }
        }
        if !matches!(*op, Xclip(_) | Yclip(_)) { last = Some(*op); }
    }
    if custom {
        if i != m || j != n { return Err(format!("ops consume {},{} of {},{}", i, j, m, n)); }
    } else if i != al.xend || j != al.yend { return Err(format!("ops end at {},{} but xend,yend={},{}", i, j, al.xend, al.yend)); }
    if al.xstart > 0 { score += s.xp as i64; }
    if al.xend < m { score += s.xs as i64; }
    if al.ystart > 0 { score += s.yp as i64; }
    if al.yend < n { score += s.ys as i64; }
    Ok(score)
}

fn strings(maxlen: usize, alpha: &[u8]) -> Vec<Vec<u8>> {
    let mut out = vec![vec![]];
    let mut cur = vec![vec![]];
    for _ in 0..maxlen {
        let mut nxt = vec![];
        for s in &cur { for &c in alpha { let mut t: Vec<u8> = s.clone(); t.push(c); nxt.push(t); } }
        out.extend(nxt.iter().cloned());
        cur = nxt;
    }
    out
}

fn main() {
    std::panic::set_hook(Box::new(|_| {}));
    let maxlen: usize = std::env::args().nth(1).map(|s| s.parse().unwrap()).unwrap_or(3);
    let strs = strings(maxlen, b"ab");
    let clips = [MIN_SCORE, 0, -1, -4];
    let mut schemes = vec![];
    for &(mat, mis) in &[(1, -1), (2, -3)] { for &go in &[0, -1, -3] { for &ge in &[0, -1, -2] {
        for &xp in &clips { for &xs in &clips { for &yp in &clips { for &ys in &clips {
            schemes.push(Sc { mat, mis, go, ge, xp, xs, yp, ys });
        }}}}
    }}}
    let nviol = AtomicUsize::new(0);
    let neval = AtomicUsize::new(0);
    let samples = Mutex::new(Vec::<String>::new());
    let kinds = Mutex::new(std::collections::BTreeMap::<String, usize>::new());
    schemes.par_iter().for_each(|s| {
        let sc = *s;
        let f = move |a: u8, b: u8| if a == b { sc.mat } else { sc.mis };
        let scoring = Scoring { gap_open: s.go, gap_extend: s.ge, match_fn: f, match_scores: Some((s.mat, s.mis)), xclip_prefix: s.xp, xclip_suffix: s.xs, yclip_prefix: s.yp, yclip_suffix: s.ys };
        let mut aligner = Aligner::with_scoring(scoring);
        for x in &strs { for y in &strs {
            neval.fetch_add(1, Ordering::Relaxed);
            let r = catch_unwind(AssertUnwindSafe(|| aligner.custom(x, y)));
            let mut report = |kind: &str, detail: String| {
                nviol.fetch_add(1, Ordering::Relaxed);
                *kinds.lock().unwrap().entry(kind.to_string()).or_insert(0) += 1;
                let mut sm = samples.lock().unwrap();
                if sm.len() < 40 { sm.push(format!("{} x={:?} y={:?} {:?} :: {}", kind, String::from_utf8_lossy(x), String::from_utf8_lossy(y), s, detail)); }
            };
            match r {
                Err(_) => { report("panic", String::new()); aligner = Aligner::with_scoring(scoring); }
                Ok(al) => {
                    let opt = optimum(x, y, s);
                    match validate(&al, x, y, s, true) {
                        Err(e) => report("invalid-path", format!("{} ops={:?} score={} opt={}", e, al.operations, al.score, opt)),
                        Ok(rs) => {
                            if rs != al.score as i64 { report("score-mismatch", format!("recomputed {} reported {} opt {} ops={:?}", rs, al.score, opt, al.operations)); }
                            else if al.score as i64 != opt { report("suboptimal", format!("reported {} opt {} ops={:?}", al.score, opt, al.operations)); }
                        }
                    }
                }
            }
        }}
    });
    println!("evaluations={} violations={}", neval.load(Ordering::Relaxed), nviol.load(Ordering::Relaxed));
    println!("{:?}", kinds.lock().unwrap());
    for s in samples.lock().unwrap().iter() { println!("{}", s); }
}
