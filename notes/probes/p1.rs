use std::panic::{catch_unwind, AssertUnwindSafe};
use bio::pattern_matching::{shift_and::ShiftAnd, bndm::BNDM, bom::BOM, horspool::Horspool, kmp::KMP};
use bio::pattern_matching::myers::{long, Myers};
use bio::data_structures::bitenc::BitEnc;
use bio::data_structures::qgram_index::QGramIndex;
use bio::alphabets::Alphabet;
use bio::io::{gff, fasta, fastq};

fn t<F: FnOnce() -> String>(name: &str, f: F) {
    let r = catch_unwind(AssertUnwindSafe(f));
    match r { Ok(s) => println!("[{}] {}", name, s), Err(e) => {
        let msg = e.downcast_ref::<String>().cloned().or_else(|| e.downcast_ref::<&str>().map(|s| s.to_string())).unwrap_or("?".into());
        println!("[{}] PANIC: {}", name, msg) } }
}

fn main() {
    std::panic::set_hook(Box::new(|_| {}));
    let p64 = vec![b'a'; 64];
    let mut text = vec![b'b'; 10]; text.extend(vec![b'a'; 66]);
    t("shiftand64", || format!("{:?}", ShiftAnd::new(&p64).find_all(&text).collect::<Vec<_>>()));
    t("bndm64", || format!("{:?}", BNDM::new(&p64).find_all(&text).collect::<Vec<_>>()));
    t("bom64", || format!("{:?}", BOM::new(&p64).find_all(&text).collect::<Vec<_>>()));
    t("horspool64", || format!("{:?}", Horspool::new(&p64).find_all(&text).collect::<Vec<_>>()));
    t("kmp64", || format!("{:?}", KMP::new(&p64).find_all(&text).collect::<Vec<_>>()));
    let p63 = vec![b'a'; 63];
    t("shiftand63", || format!("{:?}", ShiftAnd::new(&p63).find_all(&text).collect::<Vec<_>>()));
    t("bndm63", || format!("{:?}", BNDM::new(&p63).find_all(&text).collect::<Vec<_>>()));

    // long myers distance multi-block
    t("long_u8_distance_10", || format!("{}", long::Myers::<u8>::new(b"ACGTACGTAC").distance(b"TTACGTACGTACTT")));
    t("long_u8_best_end_10", || format!("{:?}", long::Myers::<u8>::new(b"ACGTACGTAC").find_best_end(b"TTACGTACGTACTT")));
    t("long_u8_findall_k_max", || format!("{:?}", long::Myers::<u8>::new(b"ACGTACGTAC").find_all_end(b"TTACGTACGTACTT", usize::MAX).collect::<Vec<_>>()));
    t("long_u8_findall_k_20", || format!("{:?}", long::Myers::<u8>::new(b"ACGTACGTAC").find_all_end(b"TTACGTACGTACTT", 20).collect::<Vec<_>>()));
    t("simple_u64_findall_k255", || format!("{:?}", Myers::<u64>::new(b"ACGTACGTAC").find_all_end(b"TTACGTACGTACTT", 255).collect::<Vec<_>>()));
    t("simple_u8_len8", || format!("{:?}", Myers::<u8>::new(b"ACGTACGT").find_all_end(b"TTACGTACGTACTT", 1).collect::<Vec<_>>()));

    // bitenc
    t("bitenc_w3", || { let mut b = BitEnc::new(3); b.push(1); b.push_values(10, 5); format!("len={} blocks={} vals={:?}", b.nr_symbols(), b.nr_blocks(), b.iter().collect::<Vec<_>>()) });
    t("bitenc_w3_b", || { let mut b = BitEnc::new(3); b.push(1); b.push_values(9, 5); b.push(2); format!("len={} blocks={} vals={:?}", b.nr_symbols(), b.nr_blocks(), b.iter().collect::<Vec<_>>()) });
    t("bitenc_w5", || { let mut b = BitEnc::new(5); b.push(1); b.push_values(6, 9); format!("len={} blocks={} vals={:?}", b.nr_symbols(), b.nr_blocks(), b.iter().collect::<Vec<_>>()) });
    t("bitenc_w7", || { let mut b = BitEnc::new(7); b.push(1); b.push_values(4, 9); format!("len={} blocks={} vals={:?}", b.nr_symbols(), b.nr_blocks(), b.iter().collect::<Vec<_>>()) });

    // qgram
    t("qgram_a3_q2", || { let a = Alphabet::new(b"abc"); let text=b"abccba"; let idx = QGramIndex::new(2, text, &a); format!("{:?}", idx.exact_matches(b"cc")) });
    t("qgram_matches_negdiag", || { let a = Alphabet::new(b"abcd"); let text=b"abcd"; let idx = QGramIndex::new(2, text, &a); format!("{:?}", idx.matches(b"ddab", 1)) });
    t("qgram_n_alphabet", || { let a = bio::alphabets::dna::n_alphabet(); let text=b"ACGTNNttnn"; let idx = QGramIndex::new(2, text, &a); format!("{:?}", idx.exact_matches(b"tt")) });

    // gff
    t("gff_multi", || {
        let mut rec = gff::Record::new();
        *rec.seqname_mut() = "chr1".into(); *rec.source_mut() = "s".into(); *rec.feature_type_mut() = "gene".into();
        *rec.start_mut() = 1; *rec.end_mut() = 5;
        rec.attributes_mut().insert("Note".into(), "a".into());
        rec.attributes_mut().insert("Note".into(), "b".into());
        let mut out = vec![];
        { let mut w = gff::Writer::new(&mut out, gff::GffType::GFF3); w.write(&rec).unwrap(); }
        let s = String::from_utf8(out.clone()).unwrap();
        let mut r = gff::Reader::new(&out[..], gff::GffType::GFF3);
        let back: Vec<_> = r.records().collect();
        format!("{:?} -> {:?}", s, back.iter().map(|x| x.as_ref().map(|r| r.attributes().clone()).map_err(|e| e.to_string())).collect::<Vec<_>>())
    });
    t("gff_phase3", || {
        let data = b"chr1\ts\tgene\t1\t5\t.\t+\t3\tID=x\n";
        let mut r = gff::Reader::new(&data[..], gff::GffType::GFF3);
        format!("{:?}", r.records().map(|x| x.map(|r| r.phase().clone()).map_err(|e| e.to_string())).collect::<Vec<_>>())
    });
    t("gff_phase_bad", || {
        let data = b"chr1\ts\tgene\t1\t5\t.\t+\tx\tID=x\n";
        let mut r = gff::Reader::new(&data[..], gff::GffType::GFF3);
        format!("{:?}", r.records().map(|x| x.map(|r| r.phase().clone()).map_err(|e| e.to_string())).collect::<Vec<_>>())
    });
    // fasta desc trailing space
    t("fasta_desc_trailing", || {
        let mut out = vec![];
        { let mut w = fasta::Writer::new(&mut out); w.write("id", Some("d "), b"ACGT").unwrap(); w.write("id2", Some(""), b"ACGT").unwrap(); }
        let r = fasta::Reader::new(&out[..]);
        format!("{:?}", r.records().map(|x| x.map(|r| (r.id().to_string(), r.desc().map(|s| s.to_string())))).collect::<Vec<_>>())
    });
    t("fastq_desc_trailing", || {
        let mut out = vec![];
        { let mut w = fastq::Writer::new(&mut out); w.write("id", Some("d "), b"ACGT", b"IIII").unwrap(); w.write("id2", Some(""), b"ACGT", b"@+II").unwrap(); }
        let r = fastq::Reader::new(&out[..]);
        format!("{:?}", r.records().map(|x| x.map(|r| (r.id().to_string(), r.desc().map(|s| s.to_string()), r.qual().to_vec())).map_err(|e| e.to_string())).collect::<Vec<_>>())
    });
}
