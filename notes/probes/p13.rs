use bio::pattern_matching::myers::{long, Myers, MyersBuilder};
use bio::pattern_matching::ukkonen::Ukkonen;
use bio::alignment::distance::{hamming, levenshtein, simd};
use bio::alignment::AlignmentOperation::{self, *};
use bio::data_structures::suffix_array::suffix_array;
use bio::data_structures::bwt::Occ;
use bio::alphabets::{Alphabet, RankTransform, dna, rna};
use bio::seq_analysis::gc::{gc_content, gc3_content};
use rayon::prelude::*;
use std::panic::{catch_unwind, AssertUnwindSafe};
use std::sync::Mutex;
use std::collections::BTreeMap;

fn strings(minlen: usize, maxlen: usize, alpha: &[u8]) -> Vec<Vec<u8>> {
    let mut out = vec![]; let mut cur = vec![vec![]]; if minlen == 0 { out.push(vec![]); }
    for l in 1..=maxlen { let mut nxt = vec![]; for s in &cur { for &c in alpha { let mut t: Vec<u8> = s.clone(); t.push(c); nxt.push(t); } } if l >= minlen { out.extend(nxt.iter().cloned()); } cur = nxt; }
    out
}
fn s(b: &[u8]) -> String { String::from_utf8_lossy(b).to_string() }
fn sg<F: Fn(u8, u8) -> usize>(p: &[u8], t: &[u8], cost: F) -> Vec<usize> {
    let m = p.len(); let mut col: Vec<usize> = (0..=m).collect(); let mut out = vec![];
    for &c in t { let mut pd = col[0]; col[0] = 0; for j in 1..=m { let tmp = col[j]; col[j] = (pd + cost(p[j-1], c)).min(col[j] + 1).min(col[j-1] + 1); pd = tmp; } out.push(col[m]); }
    out
}
fn edit(a: &[u8], b: &[u8]) -> usize { let mut col: Vec<usize> = (0..=a.len()).collect(); for &c in b { let mut pd = col[0]; col[0] += 1; for j in 1..=a.len() { let tmp = col[j]; col[j] = (pd + (a[j-1] != c) as usize).min(col[j]+1).min(col[j-1]+1); pd = tmp; } } col[a.len()] }

fn main() {
    std::panic::set_hook(Box::new(|_| {}));
    let viol = Mutex::new(BTreeMap::<String, (usize, String)>::new());
    let report = |k: &str, d: String| { let mut v = viol.lock().unwrap(); let e = v.entry(k.to_string()).or_insert((0, d)); e.0 += 1; };
    // ambiguity: pattern N matches a,b ; text wildcard '*' matches everything
    let eq = |p: u8, t: u8| p == t || (p == b'N' && (t == b'a' || t == b'b')) || t == b'*';
    let pats = strings(1, 4, b"abN"); let texts = strings(0, 5, b"ab*N");
    pats.par_iter().for_each(|p| { for t in &texts { for k in 0..=p.len() {
        let exp: Vec<(usize, usize)> = sg(p, t, |a, b| !eq(a, b) as usize).into_iter().enumerate().filter(|&(_, d)| d <= k).collect();
        let r = catch_unwind(AssertUnwindSafe(|| {
            let mut b = MyersBuilder::new(); b.ambig(b'N', b"ab"); b.text_wildcard(b'*');
            let mut m64 = b.build_64(p); let mut ml: long::Myers<u8> = b.build_long(p); let mut m16: Myers<u16> = b.build(p);
            let g1: Vec<(usize, usize)> = m64.find_all_end(t, k as u8).map(|(e, d)| (e, d as usize)).collect();
            let g2: Vec<(usize, usize)> = ml.find_all_end(t, k).collect();
            let g3: Vec<(usize, usize)> = m16.find_all_end(t, k as u8).map(|(e, d)| (e, d as usize)).collect();
            // paths: labels under ambiguity
            let mut ops: Vec<AlignmentOperation> = vec![]; let mut bad = None;
            { let mut fm = m64.find_all(t, k as u8); while let Some((st, en, d)) = fm.next_path(&mut ops) { let (mut i, mut j, mut c) = (0, st, 0); for op in &ops { match op { Match => { if !eq(p[i], t[j]) { bad = Some("Match on non-equivalent"); } i+=1; j+=1; } Subst => { if eq(p[i], t[j]) { bad = Some("Subst on equivalent"); } i+=1; j+=1; c+=1; } Ins => { i+=1; c+=1; } Del => { j+=1; c+=1; } _ => {} } } if i != p.len() || j != en || c != d as usize { bad = Some("path inconsistent"); } } }
            (g1, g2, g3, bad)
        }));
        match r { Err(_) => report("ambig-panic", format!("p={:?} t={:?} k={}", s(p), s(t), k)), Ok((g1, g2, g3, bad)) => {
            if g1 != exp { report("ambig-simple64", format!("p={:?} t={:?} k={} got {:?} exp {:?}", s(p), s(t), k, g1, exp)); }
            if g2 != exp { report("ambig-long8", format!("p={:?} t={:?} k={} got {:?} exp {:?}", s(p), s(t), k, g2, exp)); }
            if g3 != exp { report("ambig-simple16", format!("p={:?} t={:?} k={}", s(p), s(t), k)); }
            if let Some(b) = bad { report("ambig-path", format!("p={:?} t={:?} k={} {}", s(p), s(t), k, b)); } } }
    }}});
    // Ukkonen with cost functions + reuse
    let costs: [(&str, fn(u8, u8) -> u32); 3] = [("unit", |a, b| (a != b) as u32), ("caseless", |a, b| (a.to_ascii_lowercase() != b.to_ascii_lowercase()) as u32), ("weighted", |a, b| if a == b { 0 } else if (a, b) == (b'a', b'b') { 2 } else { 1 })];
    let pats = strings(1, 5, b"abA"); let texts = strings(0, 6, b"abA");
    for (name, cf) in costs { pats.par_iter().for_each(|p| { let mut u = Ukkonen::with_capacity(2, cf); // reused object across texts and k
        for t in &texts { for k in 0..=p.len()+1 {
            let exp: Vec<(usize, usize)> = sg(p, t, |a, b| cf(a, b) as usize).into_iter().enumerate().filter(|&(_, d)| d <= k).collect();
            let r = catch_unwind(AssertUnwindSafe(|| u.find_all_end(p, t, k).collect::<Vec<_>>()));
            match r { Err(_) => { report(&format!("ukkonen-{}-panic", name), format!("p={:?} t={:?} k={}", s(p), s(t), k)); u = Ukkonen::with_capacity(2, cf); } Ok(g) => if g != exp { report(&format!("ukkonen-{}", name), format!("p={:?} t={:?} k={} got {:?} exp {:?}", s(p), s(t), k, g, exp)); } }
        }} }); }
    // distance functions
    let strs = strings(0, 6, b"ab");
    strs.par_iter().for_each(|a| { for b in &strs {
        let e = edit(a, b);
        let r = catch_unwind(AssertUnwindSafe(|| (levenshtein(a, b), simd::levenshtein(a, b))));
        match r { Err(_) => report("lev-panic", format!("{:?} {:?}", s(a), s(b))), Ok((l, sl)) => { if l as usize != e { report("levenshtein", format!("{:?} {:?} got {} exp {}", s(a), s(b), l, e)); } if sl as usize != e { report("simd-levenshtein", format!("{:?} {:?} got {} exp {}", s(a), s(b), sl, e)); } } }
        for k in 0..=7u32 { let r = catch_unwind(AssertUnwindSafe(|| simd::bounded_levenshtein(a, b, k))); match r { Err(_) => report("bounded-panic", format!("{:?} {:?} k={}", s(a), s(b), k)), Ok(g) => { let exp = if e as u32 <= k { Some(e as u32) } else { None }; if g != exp { report("bounded-levenshtein", format!("{:?} {:?} k={} got {:?} exp {:?}", s(a), s(b), k, g, exp)); } } } }
        if a.len() == b.len() { let h = a.iter().zip(b.iter()).filter(|(x, y)| x != y).count() as u64; if hamming(a, b) != h || simd::hamming(a, b) != h { report("hamming", format!("{:?} {:?}", s(a), s(b))); } }
    }});
    // long strings for SIMD paths
    for len in [31usize, 32, 33, 63, 64, 65, 127, 128, 129, 255, 256, 257, 300] { let a: Vec<u8> = (0..len).map(|i| b"ACGT"[(i * 7 + i / 3) % 4]).collect();
        for e1 in [0, 1, len / 2, len - 1] { for kind in 0..3 { let mut b = a.clone(); match kind { 0 => { b[e1] = b'N'; } 1 => { b.remove(e1); } _ => { b.insert(e1, b'N'); } }
            for e2 in [0, len / 3, b.len() - 1] { let mut c = b.clone(); c[e2] = b'X';
                let e = edit(&a, &c);
                let r = catch_unwind(AssertUnwindSafe(|| (levenshtein(&a, &c), simd::levenshtein(&a, &c), simd::bounded_levenshtein(&a, &c, 1), simd::bounded_levenshtein(&a, &c, 5))));
                match r { Err(_) => report("long-dist-panic", format!("len={}", len)), Ok((l, sl, b1, b5)) => { if l as usize != e || sl as usize != e { report("long-lev", format!("len={} got {} {} exp {}", len, l, sl, e)); } if b1 != (if e <= 1 { Some(e as u32) } else { None }) || b5 != (if e <= 5 { Some(e as u32) } else { None }) { report("long-bounded", format!("len={} e={} b1={:?} b5={:?}", len, e, b1, b5)); } } }
                if a.len() == c.len() { let h = a.iter().zip(c.iter()).filter(|(x, y)| x != y).count() as u64; if hamming(&a, &c) != h || simd::hamming(&a, &c) != h { report("long-hamming", format!("len={}", len)); } }
            } } } }
    // SA: u16 path + long repetitive
    { let mut t: Vec<u8> = (1..=255u8).collect(); t.extend((1..=255u8).rev()); t.push(0); t.extend(1..=40u8); t.push(0);
      let r = catch_unwind(AssertUnwindSafe(|| suffix_array(&t))); match r { Err(_) => report("sa-u16-panic", String::new()), Ok(sa) => { let n = t.len(); let mut seen = vec![false; n]; for &p in &sa { seen[p] = true; } if !seen.iter().all(|&x| x) || sa[0] != n - 1 { report("sa-u16", String::new()); }
          // sorted (non-sentinel compare; sentinels: later occurrence smaller is what impl does, we only check consistency on non-sentinel-starting rows)
          for w in sa.windows(2) { let (a, b) = (w[0], w[1]); if t[a] != 0 && t[b] != 0 { let la = t[a..].iter().position(|&c| c == 0).unwrap(); let lb = t[b..].iter().position(|&c| c == 0).unwrap(); if t[a..a+la] > t[b..b+lb] { report("sa-u16-order", format!("{} {}", a, b)); } } } } } }
    for n in [50usize, 100, 200, 300] { for unit in [&b"a"[..], b"ab", b"aab", b"abaab"] { let mut t: Vec<u8> = unit.iter().cycle().take(n).cloned().collect(); t.push(b'$'); let sa = suffix_array(&t); let mut exp: Vec<usize> = (0..t.len()).collect(); exp.sort_by(|&a, &b| t[a..].cmp(&t[b..])); if sa != exp { report("sa-repetitive", format!("{:?} n={}", s(unit), n)); } } }
    // fibonacci strings
    { let mut a = b"a".to_vec(); let mut b = b"ab".to_vec(); for _ in 0..10 { let c = [b.clone(), a.clone()].concat(); a = b; b = c; let mut t = b.clone(); t.push(b'$'); let sa = suffix_array(&t); let mut exp: Vec<usize> = (0..t.len()).collect(); exp.sort_by(|&x, &y| t[x..].cmp(&t[y..])); if sa != exp { report("sa-fib", format!("len={}", t.len())); } } }
    // Occ with k > 64 on arbitrary bwt-like strings
    let alphabet = Alphabet::new(b"$ax");
    (100usize..=200).into_par_iter().for_each(|n| { if n % 10 != 0 && n != 129 && n != 131 && n != 195 { return; }
        for i in 0..n { for j in i..n { for inv in [false, true] {
            let (bg, fg) = if inv { (b'a', b'x') } else { (b'x', b'a') };
            let mut b = vec![bg; n]; b[i] = fg; b[j] = fg;
            for k in [65u32, 66, 100, 128, 129, 130] { let occ = Occ::new(&b, k, &alphabet);
                for r in 0..n { for c in [b'a', b'x', b'$'] { let exp = b[..=r].iter().filter(|&&d| d == c).count(); if occ.get(&b, r, c) != exp { report("occ-k64", format!("n={} i={} j={} inv={} k={} r={} c={}", n, i, j, inv, k, r, c as char)); } } } }
        }}}
    });
    // C20: complements, alphabets, gc
    for b in 0..=255u8 { for (name, f) in [("dna", dna::complement as fn(u8) -> u8), ("rna", rna::complement as fn(u8) -> u8)] { let c = f(b); if f(c) != b { report(&format!("{}-complement-involution", name), format!("{}", b)); } if b.is_ascii_alphabetic() != c.is_ascii_alphabetic() || (b.is_ascii_uppercase() != c.is_ascii_uppercase()) { report(&format!("{}-complement-case", name), format!("{}", b)); } if !b.is_ascii_alphabetic() && c != b { report(&format!("{}-complement-nonletter", name), format!("{}", b)); } } }
    let uni = [0u8, b'A', b'a', 255];
    for mask in 1u32..16 { let syms: Vec<u8> = (0..4).filter(|i| mask >> i & 1 == 1).map(|i| uni[i]).collect(); let a = Alphabet::new(&syms); let rt = RankTransform::new(&a);
        if a.len() != syms.len() || a.max_symbol() != syms.iter().max().cloned() { report("alphabet-len-max", format!("{:?}", syms)); }
        for t in strings(0, 4, &uni) { let exp = t.iter().all(|c| syms.contains(c)); if a.is_word(&t) != exp { report("alphabet-is-word", format!("{:?} {:?}", syms, t)); } }
        let mut sorted = syms.clone(); sorted.sort(); for (r, &c) in sorted.iter().enumerate() { if rt.get(c) as usize != r { report("rank-transform", format!("{:?}", syms)); } } }
    for t in strings(1, 7, b"ACgcNx") { let cnt = t.iter().filter(|&&c| matches!(c, b'c' | b'g' | b'C' | b'G')).count(); if gc_content(&t) != cnt as f32 / t.len() as f32 { report("gc", s(&t)); } let t3: Vec<u8> = t.iter().step_by(3).cloned().collect(); let c3 = t3.iter().filter(|&&c| matches!(c, b'c' | b'g' | b'C' | b'G')).count(); if gc3_content(&t) != c3 as f32 / t3.len() as f32 { report("gc3", s(&t)); } }
    for (k, v) in viol.lock().unwrap().iter() { println!("{} count={} first={}", k, v.0, &v.1[..v.1.len().min(400)]); }
    println!("done");
}
