use bio::alignment::poa::{Aligner, POAGraph};
use bio::alignment::pairwise::Scoring;
use petgraph::algo::is_cyclic_directed;
use petgraph::visit::EdgeRef;
use rayon::prelude::*;
use std::panic::{catch_unwind, AssertUnwindSafe};
use std::sync::Mutex;
use std::collections::BTreeMap;

fn strings(minlen: usize, maxlen: usize, alpha: &[u8]) -> Vec<Vec<u8>> {
    let mut out = vec![]; let mut cur = vec![vec![]]; if minlen == 0 { out.push(vec![]); }
    for l in 1..=maxlen { let mut nxt = vec![]; for s in &cur { for &c in alpha { let mut t: Vec<u8> = s.clone(); t.push(c); nxt.push(t); } } if l >= minlen { out.extend(nxt.iter().cloned()); } cur = nxt; }
    out
}
fn nw(a: &[u8], b: &[u8], mat: i32, mis: i32, gap: i32) -> i32 {
    let mut prev: Vec<i32> = (0..=b.len() as i32).map(|j| j * gap).collect();
    for i in 1..=a.len() { let mut cur = vec![i as i32 * gap; b.len() + 1]; for j in 1..=b.len() { let s = if a[i-1]==b[j-1] { mat } else { mis }; cur[j] = (prev[j-1] + s).max(prev[j] + gap).max(cur[j-1] + gap); } prev = cur; }
    prev[b.len()]
}
fn s(b: &[u8]) -> String { String::from_utf8_lossy(b).to_string() }
fn snapshot(g: &POAGraph) -> (Vec<u8>, BTreeMap<(usize, usize), i32>) {
    let nodes: Vec<u8> = g.raw_nodes().iter().map(|n| n.weight).collect();
    let mut edges = BTreeMap::new(); for e in g.edge_references() { *edges.entry((e.source().index(), e.target().index())).or_insert(0) += *e.weight(); }
    (nodes, edges)
}
fn main() {
    std::panic::set_hook(Box::new(|_| {}));
    let viol = Mutex::new(BTreeMap::<String, (usize, String)>::new());
    let report = |k: &str, d: String| { let mut v = viol.lock().unwrap(); let e = v.entry(k.to_string()).or_insert((0, d)); e.0 += 1; };
    let seqs = strings(1, 5, b"ab");
    let scorings = [(1, -1, -1), (2, -3, -2), (1, -1, 0), (0, -1, -1), (3, -1, -4)];
    seqs.par_iter().for_each(|r| { for q in &seqs { for &(mat, mis, gap) in &scorings {
        let res = catch_unwind(AssertUnwindSafe(|| {
            let f = move |a: u8, b: u8| if a == b { mat } else { mis };
            let mut al = Aligner::new(Scoring::new(gap, 0, f), r);
            let aln = al.global(q).alignment();
            let exp = nw(q, r, mat, mis, gap);
            if aln.score != exp { return Err(format!("global score {} exp {}", aln.score, exp)); }
            // ops via serde
            let js = serde_json::to_value(&aln).unwrap();
            let ops = js["operations"].as_array().unwrap();
            let (mut qi, mut sc) = (0usize, 0i32); let mut last_ref: Option<usize> = None;
            for op in ops {
                let (k, v) = op.as_object().unwrap().iter().next().unwrap();
                match k.as_str() {
                    "Match" => { let node = if v.is_null() { 0 } else { v[1].as_u64().unwrap() as usize }; if qi >= q.len() || node >= r.len() { return Err("match overrun".into()); } if let Some(l) = last_ref { if node != l + 1 { return Err(format!("match node {} after {}", node, l)); } } else if node != 0 && !v.is_null() { /* first op references node>0: means leading dels skipped? */ }
                        sc += if q[qi] == r[node] { mat } else { mis }; qi += 1; last_ref = Some(node); }
                    "Ins" => { if qi >= q.len() { return Err("ins overrun".into()); } sc += gap; qi += 1; }
                    "Del" => { sc += gap; last_ref = Some(last_ref.map(|l| l + 1).unwrap_or(0)); }
                    other => return Err(format!("unexpected op {}", other)),
                }
            }
            if qi != q.len() { return Err(format!("ops consume {} of query {}", qi, q.len())); }
            if last_ref.map(|l| l + 1).unwrap_or(0) != r.len() { return Err(format!("ops consume ref to {:?} of {} ops={}", last_ref, r.len(), js["operations"])); }
            if sc != aln.score { return Err(format!("recomputed {} reported {} ops={}", sc, aln.score, js["operations"])); }
            let b = al.global_banded(q, q.len().max(r.len())).alignment();
            if b.score != exp { return Err(format!("banded score {} exp {}", b.score, exp)); }
            let b = al.global_banded(q, q.len().max(r.len()) + 3).alignment();
            if b.score != exp { return Err(format!("banded+3 score {} exp {}", b.score, exp)); }
            Ok(())
        }));
        match res { Err(_) => report("poa-linear-panic", format!("r={:?} q={:?} {:?}", s(r), s(q), (mat, mis, gap))), Ok(Err(e)) => report("poa-linear", format!("r={:?} q={:?} {:?}: {}", s(r), s(q), (mat, mis, gap), e)), _ => {} }
    }}});
    // histories: add up to 3 queries
    let small = strings(1, 3, b"ab");
    small.par_iter().for_each(|r| { for q1 in &small { for q2 in &small { for q3 in &small { for &(mat, mis, gap) in &[(1, -1, -1), (2, -3, -2)] {
        let res = catch_unwind(AssertUnwindSafe(|| {
            let f = move |a: u8, b: u8| if a == b { mat } else { mis };
            let mut al = Aligner::new(Scoring::new(gap, 0, f), r);
            let mut prev = snapshot(al.graph());
            for q in [q1, q2, q3] {
                al.global(q).add_to_graph();
                let g = al.graph();
                if is_cyclic_directed(g) { return Err("cyclic".to_string()); }
                let cur = snapshot(g);
                if cur.0.len() < prev.0.len() || cur.0[..prev.0.len()] != prev.0[..] { return Err("node labels changed".into()); }
                if cur.0.len() > prev.0.len() + q.len() { return Err("too many nodes".into()); }
                for (e, w) in &prev.1 { if cur.1.get(e).map(|x| x < w).unwrap_or(true) { return Err(format!("edge {:?} removed/decreased", e)); } }
                let c = al.consensus();
                if c.is_empty() { return Err("empty consensus".into()); }
                // consensus spelled by a path
                let n = cur.0.len(); let mut ok = false;
                // DP: can consensus be spelled by a path? states = nodes
                let mut reach: Vec<bool> = (0..n).map(|i| cur.0[i] == c[0]).collect();
                for ch in &c[1..] { let mut nx = vec![false; n]; for (&(a, b), _) in &cur.1 { if reach[a] && cur.0[b] == *ch { nx[b] = true; } } reach = nx; }
                if reach.iter().any(|&x| x) { ok = true; }
                if !ok { return Err(format!("consensus {:?} not a path", s(&c))); }
                prev = cur;
            }
            Ok(())
        }));
        match res { Err(_) => report("poa-hist-panic", format!("r={:?} q={:?},{:?},{:?}", s(r), s(q1), s(q2), s(q3))), Ok(Err(e)) => report(&format!("poa-hist-{}", e.split(' ').next().unwrap()), format!("r={:?} q={:?},{:?},{:?} {:?}: {}", s(r), s(q1), s(q2), s(q3), (mat, mis, gap), e)), _ => {} }
    }}}}});
    // identical additions
    for r in &seqs { let res = catch_unwind(AssertUnwindSafe(|| { let f = |a: u8, b: u8| if a == b { 1 } else { -1 }; let mut al = Aligner::new(Scoring::new(-1, 0, f), r); for _ in 0..3 { al.global(r).add_to_graph(); } let g = snapshot(al.graph()); (g.0, al.consensus()) }));
        match res { Err(_) => report("poa-ident-panic", s(r)), Ok((nodes, cons)) => { if nodes != *r || cons != *r { report("poa-ident", format!("r={:?} nodes={:?} cons={:?}", s(r), s(&nodes), s(&cons))); } } } }
    for (k, v) in viol.lock().unwrap().iter() { println!("{} count={} first={}", k, v.0, &v.1[..v.1.len().min(500)]); }
    println!("done");
}
