use bio::pattern_matching::myers::{long, Myers, MyersBuilder, BitVec};
use bio::pattern_matching::ukkonen::{Ukkonen, unit_cost};
use bio::alignment::{Alignment, AlignmentOperation, AlignmentOperation::*};
use rayon::prelude::*;
use std::panic::{catch_unwind, AssertUnwindSafe};
use std::sync::Mutex;
use std::collections::BTreeMap;

fn strings(minlen: usize, maxlen: usize, alpha: &[u8]) -> Vec<Vec<u8>> {
    let mut out = vec![];
    let mut cur = vec![vec![]];
    if minlen == 0 { out.push(vec![]); }
    for l in 1..=maxlen {
        let mut nxt = vec![];
        for s in &cur { for &c in alpha { let mut t: Vec<u8> = s.clone(); t.push(c); nxt.push(t); } }
        if l >= minlen { out.extend(nxt.iter().cloned()); }
        cur = nxt;
    }
    out
}
// semiglobal DP: returns D[m][i] for each text end i
fn sg(p: &[u8], t: &[u8]) -> Vec<usize> {
    let m = p.len();
    let mut col: Vec<usize> = (0..=m).collect();
    let mut out = vec![];
    for &c in t {
        let mut prev_diag = col[0]; col[0] = 0;
        for j in 1..=m { let tmp = col[j]; col[j] = (prev_diag + (p[j-1] != c) as usize).min(col[j] + 1).min(col[j-1] + 1); prev_diag = tmp; }
        out.push(col[m]);
    }
    out
}
fn edit(a: &[u8], b: &[u8]) -> usize {
    let mut col: Vec<usize> = (0..=a.len()).collect();
    for &c in b { let mut pd = col[0]; col[0] += 1; for j in 1..=a.len() { let tmp = col[j]; col[j] = (pd + (a[j-1] != c) as usize).min(col[j]+1).min(col[j-1]+1); pd = tmp; } }
    col[a.len()]
}
fn check_path(p: &[u8], t: &[u8], start: usize, end_excl: usize, dist: usize, ops: &[AlignmentOperation]) -> Result<(), String> {
    if start > end_excl || end_excl > t.len() { return Err(format!("bad range {}..{}", start, end_excl)); }
    let (mut i, mut j) = (0usize, start); let mut d = 0;
    for op in ops { match op {
        Match => { if i>=p.len()||j>=end_excl||p[i]!=t[j] { return Err("Match on unequal/overrun".into()); } i+=1; j+=1; }
        Subst => { if i>=p.len()||j>=end_excl||p[i]==t[j] { return Err("Subst on equal/overrun".into()); } i+=1; j+=1; d+=1; }
        Ins => { if i>=p.len() { return Err("Ins overrun".into()); } i+=1; d+=1; }
        Del => { if j>=end_excl { return Err("Del overrun".into()); } j+=1; d+=1; }
        _ => return Err("clip op".into()) } }
    if i != p.len() || j != end_excl { return Err(format!("consumed {} of {} pattern, text to {} of {}", i, p.len(), j, end_excl)); }
    if d != dist { return Err(format!("path cost {} != dist {}", d, dist)); }
    if edit(p, &t[start..end_excl]) != dist { return Err(format!("edit distance of substring {} != {}", edit(p, &t[start..end_excl]), dist)); }
    Ok(())
}

macro_rules! check_myers { ($ctor:expr, $p:expr, $t:expr, $k:expr, $report:expr, $name:expr, $dt:ty) => {{
    let p: &[u8] = $p; let t: &[u8] = $t; let k: usize = $k;
    let exp_all = sg(p, t);
    let exp: Vec<(usize, usize)> = exp_all.iter().cloned().enumerate().filter(|&(_, d)| d <= k).collect();
    let r = catch_unwind(AssertUnwindSafe(|| {
        let mut my = $ctor;
        let got: Vec<(usize, usize)> = my.find_all_end(t, k as $dt).map(|(e, d)| (e, d as usize)).collect();
        if got != exp { $report(&format!("{}-find_all_end", $name), format!("p={:?} t={:?} k={} got {:?} exp {:?}", String::from_utf8_lossy(p), String::from_utf8_lossy(t), k, got, exp)); }
        // eager API
        let mut full = vec![];
        { let mut m = my.find_all(t, k as $dt); let mut ops = vec![]; while let Some((s, e, d)) = m.next_path(&mut ops) { full.push((s, e, d as usize, ops.clone())); } }
        if full.iter().map(|x| (x.1 - 1, x.2)).collect::<Vec<_>>() != exp { $report(&format!("{}-full-ends", $name), format!("p={:?} t={:?} k={}", String::from_utf8_lossy(p), String::from_utf8_lossy(t), k)); }
        for (s, e, d, ops) in &full { if let Err(err) = check_path(p, t, *s, *e, *d, ops) { $report(&format!("{}-full-path", $name), format!("p={:?} t={:?} k={} hit=({},{},{}) ops={:?}: {}", String::from_utf8_lossy(p), String::from_utf8_lossy(t), k, s, e, d, ops, err)); } }
        // iterator (start,end,dist)
        let it: Vec<(usize, usize, usize)> = my.find_all(t, k as $dt).map(|(s,e,d)| (s,e,d as usize)).collect();
        if it != full.iter().map(|x| (x.0, x.1, x.2)).collect::<Vec<_>>() { $report(&format!("{}-full-iter-vs-path", $name), format!("p={:?} t={:?} k={}", String::from_utf8_lossy(p), String::from_utf8_lossy(t), k)); }
        // lazy API: consume all, then query all ends in reverse
        { let mut lz = my.find_all_lazy(t, k as $dt);
          // before searching, hit_at(0) must be None
          if !t.is_empty() && lz.hit_at(0).is_some() { $report(&format!("{}-lazy-stale", $name), format!("p={:?} t={:?} k={}", String::from_utf8_lossy(p), String::from_utf8_lossy(t), k)); }
          let ends: Vec<(usize, usize)> = lz.by_ref().map(|(e,d)| (e, d as usize)).collect();
          if ends != exp { $report(&format!("{}-lazy-ends", $name), format!("p={:?} t={:?} k={}", String::from_utf8_lossy(p), String::from_utf8_lossy(t), k)); }
          for (s, e, d, ops) in full.iter().rev() {
              let mut o = vec![];
              let h = lz.path_at(*e - 1, &mut o).map(|(s, d)| (s, d as usize));
              if h != Some((*s, *d)) || &o != ops { $report(&format!("{}-lazy-vs-full", $name), format!("p={:?} t={:?} k={} end={} lazy={:?} {:?} full=({},{}) {:?}", String::from_utf8_lossy(p), String::from_utf8_lossy(t), k, e-1, h, o, s, d, ops)); }
              let mut aln = Alignment::default();
              if !lz.alignment_at(*e - 1, &mut aln) || aln.ystart != *s || aln.yend != *e || aln.score as usize != *d || &aln.operations != ops || aln.xlen != p.len() || aln.ylen != t.len() { $report(&format!("{}-lazy-aln", $name), format!("p={:?} t={:?}", String::from_utf8_lossy(p), String::from_utf8_lossy(t))); }
          }
        }
        if !t.is_empty() && !$name.starts_with("long") {
            let dmin = *exp_all.iter().min().unwrap();
            if my.distance(t) as usize != dmin { $report(&format!("{}-distance", $name), format!("p={:?} t={:?} got {} exp {}", String::from_utf8_lossy(p), String::from_utf8_lossy(t), my.distance(t), dmin)); }
            let be = my.find_best_end(t); let first = exp_all.iter().position(|&d| d == dmin).unwrap();
            if (be.0, be.1 as usize) != (first, dmin) { $report(&format!("{}-best_end", $name), format!("p={:?} t={:?} got {:?} exp {:?}", String::from_utf8_lossy(p), String::from_utf8_lossy(t), be, (first, dmin))); }
        }
    }));
    if r.is_err() { $report(&format!("{}-panic", $name), format!("p={:?} t={:?} k={}", String::from_utf8_lossy(p), String::from_utf8_lossy(t), k)); }
}}}

fn main() {
    std::panic::set_hook(Box::new(|_| {}));
    let viol = Mutex::new(BTreeMap::<String, (usize, String)>::new());
    let report = |k: &str, d: String| { let mut v = viol.lock().unwrap(); let e = v.entry(k.to_string()).or_insert((0, d)); e.0 += 1; };
    let units = strings(1, 3, b"ab");
    let lens = [7usize, 8, 9, 15, 16, 17, 24, 31, 32, 33, 63, 64, 65, 128, 129];
    let mut pats: Vec<Vec<u8>> = vec![];
    for u in &units { for &l in &lens { for tail in 0..2 { let mut p: Vec<u8> = u.iter().cycle().take(l).cloned().collect(); if tail == 1 { let n = p.len(); p[n-1] = if p[n-1]==b'a' {b'b'} else {b'a'}; } pats.push(p); } } }
    pats.sort(); pats.dedup();
    println!("patterns={}", pats.len());
    let ncases = std::sync::atomic::AtomicUsize::new(0);
    pats.par_iter().for_each(|p| {
        let l = p.len();
        // edit neighbourhood: <=2 edits at positions {0,1,mid,last}
        let pos = [0usize, 1.min(l-1), l/2, l-1];
        let mut variants: Vec<Vec<u8>> = vec![p.clone()];
        let apply = |v: &Vec<u8>, kind: usize, at: usize| -> Vec<u8> { let mut w = v.clone(); let at = at.min(w.len().saturating_sub(1)); match kind { 0 => { if !w.is_empty() { w[at] = if w[at]==b'a' {b'b'} else {b'a'}; } } 1 => { if !w.is_empty() { w.remove(at); } } _ => { w.insert(at, b'b'); } } w };
        let mut one = vec![]; for k in 0..3 { for &a in &pos { one.push(apply(p, k, a)); } }
        let mut two = vec![]; for v in &one { for k in 0..3 { for &a in &[0usize, l/2] { two.push(apply(v, k, a)); } } }
        variants.extend(one); variants.extend(two); variants.sort(); variants.dedup();
        for v in &variants { for (pre, post) in [(0usize, 0usize), (2, 0), (0, 3), (1, 1)] {
            let mut t = vec![b'b'; pre]; t.extend_from_slice(v); t.extend(vec![b'a'; post]);
            for k in [0usize, 1, 2, 3, l - 1, l, l + 1, 255] {
                ncases.fetch_add(1, std::sync::atomic::Ordering::Relaxed);
                let k8 = k.min(255);
                if l <= 8 { check_myers!(Myers::<u8>::new(p), p, &t, k8, report, "simple-u8", u8); }
                if l <= 16 { check_myers!(Myers::<u16>::new(p), p, &t, k8, report, "simple-u16", u8); }
                if l <= 32 { check_myers!(Myers::<u32>::new(p), p, &t, k8, report, "simple-u32", u8); }
                if l <= 64 { check_myers!(Myers::<u64>::new(p), p, &t, k8, report, "simple-u64", u8); }
                check_myers!(long::Myers::<u8>::new(p), p, &t, k, report, "long-u8", usize);
                check_myers!(long::Myers::<u64>::new(p), p, &t, k, report, "long-u64", usize);
            }
        }}
    });
    println!("cases={}", ncases.load(std::sync::atomic::Ordering::Relaxed));
    for (k, v) in viol.lock().unwrap().iter() { println!("{} count={} first={}", k, v.0, &v.1[..v.1.len().min(500)]); }
    println!("done");
}
