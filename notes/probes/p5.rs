use bio::data_structures::suffix_array::suffix_array;
use bio::data_structures::bwt::{bwt, less, Occ};
use bio::data_structures::fmindex::{FMIndex, FMDIndex};
use bio::alphabets::dna;
use rayon::prelude::*;
use std::panic::{catch_unwind, AssertUnwindSafe};
use std::sync::Mutex;
use std::collections::{BTreeMap, BTreeSet};

fn strings(minlen: usize, maxlen: usize, alpha: &[u8]) -> Vec<Vec<u8>> {
    let mut out = vec![];
    let mut cur = vec![vec![]];
    if minlen == 0 { out.push(vec![]); }
    for l in 1..=maxlen {
        let mut nxt = vec![];
        for s in &cur { for &c in alpha { let mut t: Vec<u8> = s.clone(); t.push(c); nxt.push(t); } }
        if l >= minlen { out.extend(nxt.iter().cloned()); }
        cur = nxt;
    }
    out
}
fn occs(text: &[u8], q: &[u8]) -> Vec<usize> { let n = text.len(); (0..n).filter(|&i| i + q.len() <= n && &text[i..i+q.len()] == q).collect() }

fn main() {
    std::panic::set_hook(Box::new(|_| {}));
    let maxlen: usize = std::env::args().nth(1).map(|s| s.parse().unwrap()).unwrap_or(4);
    let alpha: Vec<u8> = std::env::args().nth(2).map(|s| s.into_bytes()).unwrap_or(b"ACN".to_vec());
    let seqs = strings(1, maxlen, &alpha);
    let pats = strings(1, 4, &alpha);
    let viol = Mutex::new(BTreeMap::<String, (usize, String)>::new());
    let report = |k: &str, d: String| { let mut v = viol.lock().unwrap(); let e = v.entry(k.to_string()).or_insert((0, d)); e.0 += 1; };
    // sequence sets: one or two sequences
    let mut sets: Vec<Vec<Vec<u8>>> = seqs.iter().map(|s| vec![s.clone()]).collect();
    let short = strings(1, 2, &alpha);
    for a in &short { for b in &short { sets.push(vec![a.clone(), b.clone()]); } }
    sets.par_iter().for_each(|set| {
        let mut text = vec![];
        for s in set { text.extend_from_slice(s); text.push(b'$'); text.extend(dna::revcomp(s)); text.push(b'$'); }
        let sa = suffix_array(&text);
        let bw = bwt(&text, &sa);
        let alphabet = dna::n_alphabet();
        let ls = less(&bw, &alphabet);
        for k in [1u32, 3] {
            let occ = Occ::new(&bw, k, &alphabet);
            let fmd = FMDIndex::from(FMIndex::new(&bw, &ls, &occ));
            for p in &pats {
                // expected smems
                let m = p.len();
                let occurs = |s: usize, e: usize| !occs(&text, &p[s..e]).is_empty();
                let mut all_exp = BTreeSet::new();
                for s in 0..m { for e in s+1..=m { if occurs(s,e) && (s==0 || !occurs(s-1,e)) && (e==m || !occurs(s,e+1)) { all_exp.insert((s, e-s)); } } }
                for i in 0..m { for l in 1..=3usize {
                    let r = catch_unwind(AssertUnwindSafe(|| fmd.smems(p, i, l)));
                    let res = match r { Ok(x) => x, Err(_) => { report("smems-panic", format!("set={:?} p={:?} i={} l={}", set.iter().map(|s| String::from_utf8_lossy(s).to_string()).collect::<Vec<_>>(), String::from_utf8_lossy(p), i, l)); continue; } };
                    let exp: BTreeSet<(usize,usize)> = all_exp.iter().cloned().filter(|&(s, len)| s <= i && i < s+len && len >= l).collect();
                    let got: BTreeSet<(usize,usize)> = res.iter().map(|x| (x.1, x.2)).collect();
                    if got != exp || got.len() != res.len() { report("smems-set", format!("text={:?} p={:?} i={} l={} got {:?} exp {:?}", String::from_utf8_lossy(&text), String::from_utf8_lossy(p), i, l, res.iter().map(|x| (x.1,x.2)).collect::<Vec<_>>(), exp)); continue; }
                    for (bi, s, len) in &res {
                        let sub = &p[*s..*s+*len];
                        let mut f = bi.forward().occ(&sa); f.sort();
                        if f != occs(&text, sub) { report("smems-fwd", format!("text={:?} p={:?} sub={:?} got {:?}", String::from_utf8_lossy(&text), String::from_utf8_lossy(p), String::from_utf8_lossy(sub), f)); }
                        let rc = dna::revcomp(sub);
                        let mut g = bi.revcomp().occ(&sa); g.sort();
                        if g != occs(&text, &rc) { report("smems-rev", format!("text={:?} p={:?} sub={:?} got {:?} exp {:?}", String::from_utf8_lossy(&text), String::from_utf8_lossy(p), String::from_utf8_lossy(sub), g, occs(&text,&rc))); }
                    }
                }}
                for l in 1..=2usize {
                    let r = catch_unwind(AssertUnwindSafe(|| fmd.all_smems(p, l)));
                    match r { Err(_) => report("all-smems-panic", format!("{:?}", String::from_utf8_lossy(p))), Ok(res) => {
                        let exp: BTreeSet<(usize,usize)> = all_exp.iter().cloned().filter(|&(_, len)| len >= l).collect();
                        let got: BTreeSet<(usize,usize)> = res.iter().map(|x| (x.1, x.2)).collect();
                        if got != exp { report("all-smems", format!("text={:?} p={:?} l={} got {:?} exp {:?}", String::from_utf8_lossy(&text), String::from_utf8_lossy(p), l, res.iter().map(|x| (x.1,x.2)).collect::<Vec<_>>(), exp)); }
                    }}
                }
                // extension: build interval of p by backward ext and forward ext
                let r = catch_unwind(AssertUnwindSafe(|| {
                    let mut iv = fmd.init_interval();
                    for &c in p.iter().rev() { iv = fmd.backward_ext(&iv, c); }
                    let mut iv2 = fmd.init_interval_with(p[0]);
                    for &c in &p[1..] { iv2 = fmd.forward_ext(&iv2, c); }
                    (iv, iv2)
                }));
                match r { Err(_) => report("ext-panic", format!("text={:?} p={:?}", String::from_utf8_lossy(&text), String::from_utf8_lossy(p))), Ok((iv, iv2)) => {
                    let e = occs(&text, p);
                    for (name, iv) in [("bwd", iv), ("fwd", iv2)] {
                        let mut f = iv.forward().occ(&sa); f.sort();
                        if f != e { report(&format!("ext-{}-fwdocc", name), format!("text={:?} p={:?} got {:?} exp {:?}", String::from_utf8_lossy(&text), String::from_utf8_lossy(p), f, e)); }
                        if !e.is_empty() { let mut g = iv.revcomp().occ(&sa); g.sort(); let rc = dna::revcomp(p); if g != occs(&text, &rc) { report(&format!("ext-{}-revocc", name), format!("text={:?} p={:?} got {:?}", String::from_utf8_lossy(&text), String::from_utf8_lossy(p), g)); } }
                    }
                }}
            }
        }
    });
    println!("sets={} pats={}", sets.len(), pats.len());
    for (k, v) in viol.lock().unwrap().iter() { println!("{} count={} first={}", k, v.0, v.1); }
}
