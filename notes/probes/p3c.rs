use bio::alignment::pairwise::{banded, Scoring, MIN_SCORE};
fn main() {
    let a: Vec<String> = std::env::args().collect();
    let x = a[1].trim_matches('_').as_bytes().to_vec(); let y = a[2].trim_matches('_').as_bytes().to_vec();
    let c: Vec<i32> = a[3..7].iter().map(|s| if s == "M" { MIN_SCORE } else { s.parse().unwrap() }).collect();
    let k: usize = a[7].parse().unwrap(); let w: usize = a[8].parse().unwrap();
    let f = |a: u8, b: u8| if a == b { 1 } else { -1 };
    let scoring = Scoring { gap_open: -1, gap_extend: -1, match_fn: f, match_scores: Some((1, -1)), xclip_prefix: c[0], xclip_suffix: c[1], yclip_prefix: c[2], yclip_suffix: c[3] };
    let mut al = banded::Aligner::with_scoring(scoring, k, w);
    let r = match a[9].as_str() { "custom" => al.custom(&x, &y), "global" => al.global(&x, &y), "semiglobal" => al.semiglobal(&x, &y), "local" => al.local(&x, &y), _ => panic!() };
    println!("score={} ops={:?} x={}..{} y={}..{}", r.score, r.operations, r.xstart, r.xend, r.ystart, r.yend);
}
