use bio::pattern_matching::myers::long;
use bio::data_structures::qgram_index::QGramIndex;
use bio::alphabets::Alphabet;
fn main() {
    let which = std::env::args().nth(1).unwrap();
    if which == "f4" { println!("{}", long::Myers::<u8>::new(&b"ACGTACGTAC"[..]).distance(&b"ACGT"[..])); }
    if which == "f11" { let a = Alphabet::new(b"abc"); let idx = QGramIndex::new(2, b"abcabc", &a); println!("{:?}", idx.exact_matches(b"cc")); }
}
