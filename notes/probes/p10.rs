use bio::io::{fasta, fastq, fastx, bed, gff};
use bio::io::fasta::FastaRead; use bio::io::fastq::FastqRead;
use rayon::prelude::*;
use std::panic::{catch_unwind, AssertUnwindSafe};
use std::sync::Mutex;
use std::collections::BTreeMap;
use std::io::{self, Read, BufReader};
use multimap::MultiMap;

struct Frag<'a> { data: &'a [u8], pos: usize, chunks: Vec<usize>, calls: usize }
impl<'a> Read for Frag<'a> { fn read(&mut self, buf: &mut [u8]) -> io::Result<usize> {
    let c = self.chunks[self.calls % self.chunks.len()]; self.calls += 1;
    if self.pos >= self.data.len() { return Ok(0); }
    let n = c.min(buf.len()).min(self.data.len() - self.pos); buf[..n].copy_from_slice(&self.data[self.pos..self.pos+n]); self.pos += n; Ok(n) } }

type Rec = (String, Option<String>, Vec<u8>, Vec<u8>);

fn main() {
    std::panic::set_hook(Box::new(|_| {}));
    let viol = Mutex::new(BTreeMap::<String, (usize, String)>::new());
    let report = |k: &str, d: String| { let mut v = viol.lock().unwrap(); let e = v.entry(k.to_string()).or_insert((0, d)); e.0 += 1; };
    let ids = ["a", "id1", "@x", ">y", "+"];
    let descs: [Option<&str>; 6] = [None, Some("d"), Some("two words"), Some(" lead"), Some("@ + >"), Some("x\ty")];
    let seqs: [&[u8]; 4] = [b"A", b"ACGT", b"ACGTACGTAC", b"NNNNNNN"];
    let quals_first = [b'I', b'@', b'+', b'>', b'!'];
    let mut recs: Vec<Rec> = vec![];
    for id in ids { for d in descs { for sq in seqs { for &q in &quals_first {
        let mut qual = vec![b'5'; sq.len()]; qual[0] = q;
        recs.push((id.to_string(), d.map(|s| s.to_string()), sq.to_vec(), qual));
    }}}}
    println!("records={}", recs.len());
    // lists of 1..2 records (pairs sampled on a stride to keep it small here)
    let mut lists: Vec<Vec<Rec>> = recs.iter().map(|r| vec![r.clone()]).collect();
    for i in (0..recs.len()).step_by(7) { for j in (0..recs.len()).step_by(11) { lists.push(vec![recs[i].clone(), recs[j].clone()]); } }
    println!("lists={}", lists.len());
    lists.par_iter().for_each(|list| {
        // FASTQ
        let mut fq = vec![]; { let mut w = fastq::Writer::new(&mut fq); for r in list { w.write(&r.0, r.1.as_deref(), &r.2, &r.3).unwrap(); } }
        for cap in [1usize, 2, 3, 7, 8192] { for chunks in [vec![1usize], vec![2, 5], vec![1 << 20]] {
            let r = catch_unwind(AssertUnwindSafe(|| { let rd = fastq::Reader::from_bufread(BufReader::with_capacity(cap, Frag { data: &fq, pos: 0, chunks: chunks.clone(), calls: 0 })); rd.records().map(|x| x.map(|r| (r.id().to_string(), r.desc().map(|s| s.to_string()), r.seq().to_vec(), r.qual().to_vec())).map_err(|e| e.to_string())).collect::<Vec<_>>() }));
            match r { Err(_) => report("fastq-panic", format!("{:?}", list)), Ok(got) => { let exp: Vec<Result<Rec, String>> = list.iter().cloned().map(Ok).collect(); if got != exp { report("fastq-roundtrip", format!("cap={} chunks={:?} list={:?} got={:?}", cap, chunks, list, got)); } } }
        }}
        // sniffer
        { let rd = fastx::EitherRecords::new(BufReader::new(&fq[..])); let got: Vec<_> = rd.map(|x| x.map(|r| { use fastx::Record; (r.id().to_string(), r.desc().map(|s| s.to_string()), r.seq().to_vec(), r.qual().map(|q| q.to_vec()).unwrap_or_default()) }).map_err(|e| e.to_string())).collect(); let exp: Vec<Result<Rec, String>> = list.iter().cloned().map(Ok).collect(); if got != exp { report("fastx-fastq", format!("{:?} got {:?}", list, got)); } }
        // truncation
        for cut in 0..fq.len() {
            let r = catch_unwind(AssertUnwindSafe(|| { let rd = fastq::Reader::new(&fq[..cut]); let mut out = vec![]; let mut n = 0; for x in rd.records() { n += 1; if n > fq.len() + 5 { return Err("too many items".to_string()); } if let Ok(r) = x { if r.check().is_ok() { out.push((r.id().to_string(), r.desc().map(|s| s.to_string()), r.seq().to_vec(), r.qual().to_vec())); } } } Ok(out) }));
            match r { Err(_) => report("fastq-trunc-panic", format!("{:?} cut={}", list, cut)), Ok(Err(e)) => report("fastq-trunc-loop", format!("{:?} cut={} {}", list, cut, e)), Ok(Ok(got)) => { if got.len() > list.len() || got.iter().zip(list.iter()).any(|(a, b)| a != b) { report("fastq-trunc-bogus-record", format!("{:?} cut={} got {:?}", list, cut, got)); } } }
        }
        // FASTA with wraps
        for wrap in [None, Some(1usize), Some(3), Some(4), Some(100)] {
            let mut fa = vec![]; { let mut w = fasta::Writer::new(&mut fa); w.set_linewrap(wrap); for r in list { w.write(&r.0, r.1.as_deref(), &r.2).unwrap(); } }
            let crlf: Vec<u8> = fa.iter().flat_map(|&b| if b == b'\n' { vec![b'\r', b'\n'] } else { vec![b] }).collect();
            for (variant, data) in [("lf", &fa), ("crlf", &crlf)] { for cap in [1usize, 3, 8192] { for chunks in [vec![1usize], vec![1 << 20]] {
                let r = catch_unwind(AssertUnwindSafe(|| { let rd = fasta::Reader::from_bufread(BufReader::with_capacity(cap, Frag { data, pos: 0, chunks: chunks.clone(), calls: 0 })); rd.records().map(|x| x.map(|r| (r.id().to_string(), r.desc().map(|s| s.to_string()), r.seq().to_vec())).map_err(|e| e.to_string())).collect::<Vec<_>>() }));
                match r { Err(_) => report("fasta-panic", format!("{:?}", list)), Ok(got) => { let exp: Vec<Result<_, String>> = list.iter().map(|r| Ok((r.0.clone(), r.1.clone(), r.2.clone()))).collect(); if got != exp { report(&format!("fasta-roundtrip-{}", variant), format!("wrap={:?} cap={} list={:?} got={:?}", wrap, cap, list, got)); } } }
            }}}
            if wrap.is_none() { for cut in 0..fa.len() { let r = catch_unwind(AssertUnwindSafe(|| { let rd = fasta::Reader::new(&fa[..cut]); rd.records().take(fa.len() + 5).count() })); match r { Err(_) => report("fasta-trunc-panic", format!("{:?} cut={}", list, cut)), Ok(n) => if n > fa.len() { report("fasta-trunc-loop", String::new()); } } } }
        }
    });
    // arbitrary bytes, all strings up to length 5 over a nasty alphabet
    let alpha = [b'>', b'@', b'+', b'\n', b'\r', b'A', b' ', 0xFFu8];
    let total: usize = (0..=5u32).map(|l| alpha.len().pow(l)).sum();
    println!("arbitrary inputs={}", total);
    (0..=5u32).into_par_iter().for_each(|l| { for mut idx in 0..alpha.len().pow(l) { let mut data = vec![]; for _ in 0..l { data.push(alpha[idx % alpha.len()]); idx /= alpha.len(); }
        let r = catch_unwind(AssertUnwindSafe(|| {
            let a = fasta::Reader::new(&data[..]).records().take(20).count();
            let b = fastq::Reader::new(&data[..]).records().take(20).count();
            let c = fastx::EitherRecords::new(BufReader::new(&data[..])).take(20).count();
            let mut rd = fasta::Reader::new(&data[..]); let mut rec = fasta::Record::new(); for _ in 0..10 { let _ = rd.read(&mut rec); }
            let mut rd = fastq::Reader::new(&data[..]); let mut rec = fastq::Record::new(); for _ in 0..10 { let _ = rd.read(&mut rec); }
            (a, b, c) }));
        match r { Err(_) => report("arbitrary-panic", format!("{:?}", data)), Ok((a, b, c)) => if a >= 20 || b >= 20 || c >= 20 { report("arbitrary-loop", format!("{:?} {} {} {}", data, a, b, c)); } }
    }});
    // ---- BED
    let chroms = ["chr1", "1", "c h", "\"q\"", ""]; let auxv = ["", "name", "0", "+", "a b", "1,2,", "\"", "x\"y"];
    for k in 0..=3usize { let mut recs = vec![]; for c in chroms { for (s, e) in [(0u64, 0u64), (1, 5), (u64::MAX - 1, u64::MAX)] { for a0 in 0..auxv.len() { let mut r = bed::Record::new(); r.set_chrom(c); r.set_start(s); r.set_end(e); for j in 0..k { r.push_aux(auxv[(a0 + j * 3) % auxv.len()]); } recs.push(r); } } }
        for i in 0..recs.len() { for j in [i, (i * 7 + 3) % recs.len()] { let list = vec![recs[i].clone(), recs[j].clone()];
            let r = catch_unwind(AssertUnwindSafe(|| { let mut out = vec![]; { let mut w = bed::Writer::new(&mut out); for r in &list { w.write(r).unwrap(); } } let mut rd = bed::Reader::new(&out[..]); let got: Vec<_> = rd.records().map(|x| x.map_err(|e| e.to_string())).collect(); (out, got) }));
            match r { Err(_) => report("bed-panic", format!("{:?}", list)), Ok((out, got)) => { let exp: Vec<Result<bed::Record, String>> = list.iter().cloned().map(Ok).collect(); if got != exp { report("bed-roundtrip", format!("k={} {:?} bytes={:?} got {:?}", k, list, String::from_utf8_lossy(&out), got)); } } }
        }}
    }
    // ---- GFF
    for ty in [gff::GffType::GFF3, gff::GffType::GFF2, gff::GffType::GTF2] {
        let keys = ["ID", "Note", "k 2", "x"]; let vals = ["v", "1", "a b", "y.z", "-"];
        let spaces_ok = matches!(ty, gff::GffType::GFF3);
        let mut maps: Vec<Vec<(String, String)>> = vec![vec![]];
        for &k1 in &keys { for &v1 in &vals { maps.push(vec![(k1.into(), v1.into())]); for &v2 in &vals { maps.push(vec![(k1.into(), v1.into()), (k1.into(), v2.into())]); for &k2 in &keys { if k2 != k1 { maps.push(vec![(k1.into(), v1.into()), (k2.into(), v2.into()), (k1.into(), v2.into())]); } } } } }
        for m in &maps { if !spaces_ok && m.iter().any(|(k, v)| k.contains(' ') || v.contains(' ')) { continue; }
            for (score, strand, phase) in [(".", ".", None), ("5", "+", Some(0u8)), ("0.5", "-", Some(2))] {
                let mut rec = gff::Record::new(); *rec.seqname_mut() = "chr1".into(); *rec.source_mut() = "src".into(); *rec.feature_type_mut() = "gene".into(); *rec.start_mut() = 3; *rec.end_mut() = 9; *rec.score_mut() = score.into(); *rec.strand_mut() = strand.into(); *rec.phase_mut() = gff::Phase::from(phase);
                let mut mm = MultiMap::new(); for (k, v) in m { mm.insert(k.clone(), v.clone()); } *rec.attributes_mut() = mm;
                let r = catch_unwind(AssertUnwindSafe(|| { let mut out = vec![]; { let mut w = gff::Writer::new(&mut out, ty); w.write(&rec).unwrap(); } let mut rd = gff::Reader::new(&out[..], ty); let got: Vec<_> = rd.records().map(|x| x.map_err(|e| e.to_string())).collect(); (out, got) }));
                match r { Err(_) => report("gff-panic", format!("{:?}", rec)), Ok((out, got)) => { if got != vec![Ok(rec.clone())] { report(&format!("gff-roundtrip-{:?}", ty), format!("{:?} bytes={:?} got {:?}", rec, String::from_utf8_lossy(&out), got)); } } }
            }
        }
    }
    for (k, v) in viol.lock().unwrap().iter() { println!("{} count={} first={}", k, v.0, &v.1[..v.1.len().min(600)]); }
    println!("done");
}
