use bio::data_structures::qgram_index::QGramIndex;
use bio::alphabets::{Alphabet, RankTransform};
use bio::alignment::sparse::*;
use bio::data_structures::rank_select::RankSelect;
use bio::data_structures::wavelet_matrix::WaveletMatrix;
use bio::seq_analysis::orf::Finder;
use bv::{BitVec, BitsMut};
use rayon::prelude::*;
use std::panic::{catch_unwind, AssertUnwindSafe};
use std::sync::Mutex;
use std::collections::{BTreeMap, BTreeSet};

fn strings(minlen: usize, maxlen: usize, alpha: &[u8]) -> Vec<Vec<u8>> {
    let mut out = vec![];
    let mut cur = vec![vec![]];
    if minlen == 0 { out.push(vec![]); }
    for l in 1..=maxlen {
        let mut nxt = vec![];
        for s in &cur { for &c in alpha { let mut t: Vec<u8> = s.clone(); t.push(c); nxt.push(t); } }
        if l >= minlen { out.extend(nxt.iter().cloned()); }
        cur = nxt;
    }
    out
}
fn s(b: &[u8]) -> String { String::from_utf8_lossy(b).to_string() }

fn main() {
    std::panic::set_hook(Box::new(|_| {}));
    let viol = Mutex::new(BTreeMap::<String, (usize, String)>::new());
    let report = |k: &str, d: String| { let mut v = viol.lock().unwrap(); let e = v.entry(k.to_string()).or_insert((0, d)); e.0 += 1; };
    // ---- QGramIndex for alphabet sizes 1..5
    for asz in 1..=5usize {
        let alpha: Vec<u8> = b"abcde"[..asz].to_vec();
        let alphabet = Alphabet::new(&alpha);
        let texts = strings(0, if asz <= 2 { 8 } else if asz == 3 { 6 } else { 5 }, &alpha);
        let pats = strings(0, 4, &alpha);
        texts.par_iter().for_each(|t| { for q in 1..=3u32 { for max_count in [usize::MAX, 1, 2] {
            let r = catch_unwind(AssertUnwindSafe(|| {
                let idx = QGramIndex::with_max_count(q, t, &alphabet, max_count);
                let rt = RankTransform::new(&alphabet);
                // codes injective + positions
                let grams = strings(q as usize, q as usize, &alpha);
                let mut codes = BTreeSet::new();
                for g in &grams {
                    let code = rt.qgrams(q, g).next().unwrap();
                    if !codes.insert(code) { report("qgram-code-collision", format!("a={} q={}", asz, q)); }
                    let exp: Vec<usize> = if t.len() >= g.len() { (0..=t.len()-g.len()).filter(|&i| &t[i..i+g.len()]==&g[..]).collect() } else { vec![] };
                    let exp = if exp.len() > max_count { vec![] } else { exp };
                    let got = idx.qgram_matches(code).to_vec();
                    if got != exp { report("qgram-matches", format!("a={} q={} mc={} t={:?} g={:?} got {:?} exp {:?}", asz, q, max_count, s(t), s(g), got, exp)); }
                }
                // rev_qgrams mirror
                let f: Vec<usize> = rt.qgrams(q, t).collect(); let mut r: Vec<usize> = rt.rev_qgrams(q, t).collect(); r.reverse();
                if f != r { report("rev-qgrams", format!("a={} q={} t={:?} f={:?} r={:?}", asz, q, s(t), f, r)); }
                if max_count == usize::MAX { for p in &pats {
                    // exact_matches: maximal exact matches of length >= q
                    let mut exp = BTreeSet::new();
                    let (m, n) = (p.len(), t.len()); let qq = q as usize;
                    for i in 0..m { for j in 0..n { if p[i]==t[j] && (i==0||j==0||p[i-1]!=t[j-1]) { let mut l=0; while i+l<m && j+l<n && p[i+l]==t[j+l] { l+=1; } if l>=qq { exp.insert((i, i+l, j, j+l)); } } } }
                    let got: Vec<_> = idx.exact_matches(p).iter().map(|m| (m.pattern.start, m.pattern.stop, m.text.start, m.text.stop)).collect();
                    let gs: BTreeSet<_> = got.iter().cloned().collect();
                    if gs != exp || gs.len() != got.len() { report("exact-matches", format!("a={} q={} t={:?} p={:?} got {:?} exp {:?}", asz, q, s(t), s(p), got, exp)); }
                    // matches: per diagonal count, range
                    for min_count in [1usize, 2] {
                        let mut diag: BTreeMap<isize, (usize, usize, usize)> = BTreeMap::new();
                        if m >= qq && n >= qq { for i in 0..=m-qq { for j in 0..=n-qq { if p[i..i+qq]==t[j..j+qq] { let d = j as isize - i as isize; let e = diag.entry(d).or_insert((0, i, i)); e.0 += 1; e.1 = e.1.min(i); e.2 = e.2.max(i); } } } }
                        let exp: BTreeSet<_> = diag.iter().filter(|(_, v)| v.0 >= min_count).map(|(d, v)| (v.1, v.2+qq, (v.1 as isize + d) as usize, (v.2 as isize + d) as usize + qq, v.0)).collect();
                        let got: BTreeSet<_> = idx.matches(p, min_count).iter().map(|m| (m.pattern.start, m.pattern.stop, m.text.start, m.text.stop, m.count)).collect();
                        if got != exp { report("qgram-diag-matches", format!("a={} q={} t={:?} p={:?} got {:?} exp {:?}", asz, q, s(t), s(p), got, exp)); }
                    }
                }}
            }));
            if r.is_err() { report("qgram-panic", format!("a={} q={} mc={} t={:?}", asz, q, max_count, s(t))); }
        }}});
    }
    // ---- sparse: kmer matches + lcskpp optimality
    let seqs = strings(0, 6, b"ab");
    seqs.par_iter().for_each(|a| { for b in &seqs { for k in 1..=3usize {
        let r = catch_unwind(AssertUnwindSafe(|| {
            let mut exp = vec![]; if a.len()>=k && b.len()>=k { for i in 0..=a.len()-k { for j in 0..=b.len()-k { if a[i..i+k]==b[j..j+k] { exp.push((i as u32, j as u32)); } } } }
            let got = find_kmer_matches(a, b, k);
            if got != exp { report("kmer-matches", format!("{:?} {:?} k={}", s(a), s(b), k)); }
            let h = hash_kmers(b, k); if find_kmer_matches_seq2_hashed(a, &h, k) != exp { report("kmer-matches-h2", String::new()); }
            let h = hash_kmers(a, k); if find_kmer_matches_seq1_hashed(&h, b, k) != exp { report("kmer-matches-h1", String::new()); }
            if exp.len() <= 12 {
                let res = lcskpp(&exp, k);
                // validity + score
                let chain: Vec<(u32,u32)> = res.path.iter().map(|&i| exp[i]).collect();
                let mut sc = 0u32; let mut ok = true;
                for (idx, m) in chain.iter().enumerate() { if idx == 0 { sc += k as u32; } else { let p = chain[idx-1]; if m.0 == p.0+1 && m.1 == p.1+1 { sc += 1; } else if m.0 >= p.0 + k as u32 && m.1 >= p.1 + k as u32 { sc += k as u32; } else { ok = false; } } }
                if !ok { report("lcskpp-invalid-chain", format!("{:?} {:?} k={} chain {:?}", s(a), s(b), k, chain)); }
                if !exp.is_empty() && sc != res.score { report("lcskpp-score-mismatch", format!("{:?} {:?} k={} chain {:?} sc {} reported {}", s(a), s(b), k, chain, sc, res.score)); }
                // brute force optimum over subsets
                let n = exp.len(); let mut best = 0u32;
                for mask in 1u32..(1<<n) { let sub: Vec<(u32,u32)> = (0..n).filter(|i| mask>>i&1==1).map(|i| exp[i]).collect(); let mut sc = k as u32; let mut ok = true; for w in sub.windows(2) { let (p, m) = (w[0], w[1]); if m.0 == p.0+1 && m.1 == p.1+1 { sc += 1; } else if m.0 >= p.0 + k as u32 && m.1 >= p.1 + k as u32 { sc += k as u32; } else { ok = false; break; } } if ok { best = best.max(sc); } }
                if res.score != best { report("lcskpp-suboptimal", format!("{:?} {:?} k={} reported {} best {}", s(a), s(b), k, res.score, best)); }
                // sdpkpp chain validity
                for (go, ge) in [(0, 0), (-1, -1), (-5, -1)] {
                    let res = sdpkpp(&exp, k, 1, go, ge);
                    let chain: Vec<(u32,u32)> = res.path.iter().map(|&i| exp[i]).collect();
                    for w in chain.windows(2) { let (p, m) = (w[0], w[1]); if !((m.0 == p.0+1 && m.1 == p.1+1) || (m.0 >= p.0 + k as u32 && m.1 >= p.1 + k as u32)) { report("sdpkpp-invalid-chain", format!("{:?} {:?} k={} chain {:?}", s(a), s(b), k, chain)); } }
                    let u = sdpkpp_union_lcskpp_path(&exp, k, 1, go, ge);
                    let chain: Vec<(u32,u32)> = u.iter().map(|&i| exp[i]).collect();
                    for w in chain.windows(2) { let (p, m) = (w[0], w[1]); if !((m.0 == p.0+1 && m.1 == p.1+1) || (m.0 >= p.0 + k as u32 && m.1 >= p.1 + k as u32)) { report("union-invalid-chain", format!("{:?} {:?} k={} go={} ge={} chain {:?}", s(a), s(b), k, go, ge, chain)); } }
                }
                for mm in 0..2 { let e = expand_kmer_matches(a, b, k, &exp, mm); let es: BTreeSet<_> = e.iter().collect(); if es.len() != e.len() || !e.windows(2).all(|w| w[0] < w[1]) { report("expand-not-sorted-set", format!("{:?} {:?} k={} mm={} {:?}", s(a), s(b), k, mm, e)); }
                    for m in &e { if m.0 as usize + k > a.len() || m.1 as usize + k > b.len() { report("expand-oob", format!("{:?} {:?} k={} mm={} {:?}", s(a), s(b), k, mm, m)); } }
                    if mm == 0 && e != exp { report("expand-mm0-differs", format!("{:?} {:?} k={} {:?} vs {:?}", s(a), s(b), k, e, exp)); } }
            }
        }));
        if r.is_err() { report("sparse-panic", format!("{:?} {:?} k={}", s(a), s(b), k)); }
    }}});
    // ---- ORF
    let seqs = strings(0, 10, b"ATG");
    seqs.par_iter().for_each(|q| { for min_len in [0usize, 3, 4, 6] {
        let finder = Finder::new(vec![b"ATG"], vec![b"TGA", b"TAG", b"TAA"], min_len);
        let r = catch_unwind(AssertUnwindSafe(|| finder.find_all(q).map(|o| (o.start, o.end, o.offset)).collect::<Vec<_>>()));
        let got = match r { Ok(g) => g, Err(_) => { report("orf-panic", s(q)); continue; } };
        let stops: [&[u8]; 3] = [b"TGA", b"TAG", b"TAA"];
        let mut exp = BTreeSet::new();
        let n = q.len();
        for st in 0..n.saturating_sub(2) { if &q[st..st+3] == b"ATG" { let mut e = st + 3; while e + 3 <= n { if stops.contains(&&q[e..e+3]) { let len = e + 3 - st; if len > min_len + 2 { exp.insert((st, e+3, ((e+3) % 3) as i8)); } break; } e += 3; } } }
        let gs: BTreeSet<_> = got.iter().cloned().collect();
        if gs != exp || gs.len() != got.len() { report("orf", format!("{:?} min={} got {:?} exp {:?}", s(q), min_len, got, exp)); }
    }});
    // ---- RankSelect: bytes patterns
    let pat = [0x00u8, 0xFF, 0x01, 0x80];
    let nbytes = 9;
    (0..pat.len().pow(nbytes as u32)).into_par_iter().for_each(|mut idx| {
        let mut bytes = vec![]; for _ in 0..nbytes { bytes.push(pat[idx % pat.len()]); idx /= pat.len(); }
        for lastbits in [1usize, 5, 8] { for k in 1..=3usize {
            let n = (nbytes - 1) * 8 + lastbits;
            let mut bits: BitVec<u8> = BitVec::new_fill(false, n as u64);
            let mut plain = vec![false; n];
            for i in 0..n { let b = bytes[i/8] >> (i%8) & 1 == 1; bits.set_bit(i as u64, b); plain[i] = b; }
            let r = catch_unwind(AssertUnwindSafe(|| {
                let rs = RankSelect::new(bits.clone(), k);
                let mut ones = 0u64; let mut zeros = 0u64;
                for i in 0..n { if plain[i] { ones += 1; if rs.select_1(ones) != Some(i as u64) { return Err(format!("select_1({})", ones)); } } else { zeros += 1; if rs.select_0(zeros) != Some(i as u64) { return Err(format!("select_0({}) = {:?} exp {}", zeros, rs.select_0(zeros), i)); } }
                    if rs.rank_1(i as u64) != Some(ones) || rs.rank_0(i as u64) != Some(zeros) { return Err(format!("rank({})", i)); } }
                if rs.rank_1(n as u64).is_some() || rs.select_1(0).is_some() || rs.select_0(0).is_some() || rs.select_1(ones+1).is_some() || rs.select_0(zeros+1).is_some() { return Err("bounds".into()); }
                Ok(())
            }));
            match r { Err(_) => report("rankselect-panic", format!("{:?} last={} k={}", bytes, lastbits, k)), Ok(Err(e)) => report("rankselect", format!("{:?} last={} k={}: {}", bytes, lastbits, k, e)), _ => {} }
        }}
    });
    // wavelet
    let texts = strings(1, 6, b"ACGTN$");
    texts.par_iter().for_each(|t| { let mut tt = t.clone(); for rep in 0..2 { if rep == 1 { let base = tt.clone(); while tt.len() < 70 { tt.extend_from_slice(&base); } }
        let r = catch_unwind(AssertUnwindSafe(|| { let wm = WaveletMatrix::new(&tt); for &c in b"ACGTN$" { let mut cnt = 0; for p in 0..tt.len() { if tt[p]==c { cnt += 1; } if wm.rank(c, p as u64) != cnt { return Err(format!("c={} p={}", c as char, p)); } } } Ok(()) }));
        match r { Err(_) => report("wavelet-panic", s(&tt)), Ok(Err(e)) => report("wavelet", format!("{:?} {}", s(&tt), e)), _ => {} } } });
    for (k, v) in viol.lock().unwrap().iter() { println!("{} count={} first={}", k, v.0, v.1); }
    println!("done");
}
